import CalVerif.Lemmas.SharedFormula
import CalVerif.Lemmas.SharedEvents
/-! # C15 — XLSX shared formulas expand to the translated formula of each member cell

    Model: `Model/SharedFormula.lean` (the Rust code after the fixes D11, D12, D13 and the map-by-`si` repair);
    grammar/spec: `Spec/FormulaTokens.lean`; helper lemmas: `Lemmas/SharedFormula.lean`. -/

namespace C15
open SharedFormula
open FormulaTokens (Tok letter colLetters dec dollar renderTok render shiftTok shift move identChar
  cellLike firstChar endsRun notCallOrSheet inSheet tokWF wf WF bracketScan)

/-- **ref_shift**: offsetting a single rendered reference moves exactly its relative components
    (the `$` components stay), provided the reference and its image lie in the sheet. -/
theorem ref_shift (ca ra : Bool) (c r : Nat) (d : Int × Int) (hc : c < 16384) (hr : r < 1048576)
    (hin : inSheet ((r : Int) + (if ra then 0 else d.1)) ((c : Int) + (if ca then 0 else d.2)) = true) :
    offsetCellRef (renderTok (.ref ca c ra r)) d
      = some (renderTok (.ref ca (if ca then c else ((c : Int) + d.2).toNat) ra
                                  (if ra then r else ((r : Int) + d.1).toNat))) :=
  offsetCellRef_ref ca ra c r d hc hr hin

/-- the tokenizer on `render toks`, for any sufficient fuel -/
theorem translate_go (toks : List Tok) (d : Int × Int) (h : WF toks d) :
    ∀ f, (render toks).length ≤ f → replaceGo d f (render toks) = .ok (render (shift toks d)) := by
  induction toks with
  | nil => intro f _; exact replaceGo_nil d f
  | cons t ts ih =>
    unfold WF at h ih
    simp only [wf, Bool.and_eq_true] at h
    obtain ⟨ht, hts⟩ := h
    have ih := ih hts
    have hnext : ∀ x, (render ts).head? = some x → endsRun (firstChar ts) = true → isNameChar x = false := by
      intro x hx he
      unfold firstChar at he; rw [hx] at he
      simpa [endsRun, identChar_eq] using he
    intro f hf
    cases t with
    | punct c =>
      simp only [tokWF, Bool.and_eq_true, Bool.not_eq_true', bne_iff_ne, ne_eq] at ht
      obtain ⟨⟨⟨h1, h2⟩, h3⟩, h4⟩ := ht
      simp only [render, renderTok, List.length_append, List.length_cons, List.length_nil] at hf ⊢
      obtain ⟨f', rfl⟩ : ∃ f', f = f' + 1 := ⟨f - 1, by omega⟩
      rw [List.singleton_append, replaceGo_punct d f' c _ (by rw [← identChar_eq]; exact h1) h2 h3 h4, ih f' (by omega)]
      rfl
    | struct s =>
      simp only [tokWF, beq_iff_eq] at ht
      simp only [render, renderTok, List.length_append, List.length_cons, List.length_nil] at hf ⊢
      obtain ⟨f', rfl⟩ : ∃ f', f = f' + 1 := ⟨f - 1, by omega⟩
      have e : ('[' :: s ++ [']']) ++ render ts = '[' :: (s ++ ']' :: render ts) := by simp
      rw [e, replaceGo_bracket d f' s _ ht, ih f' (by omega)]
      simp [pre, shift, render, renderTok, shiftTok]
    | str s =>
      simp only [tokWF, Bool.not_eq_true'] at ht
      have hs : ∀ x ∈ s, x ≠ '"' := by
        intro x hx e; subst e
        have : s.contains '"' = true := List.contains_iff_mem.mpr hx
        rw [ht] at this; cases this
      simp only [render, renderTok, List.length_append, List.length_cons, List.length_nil] at hf ⊢
      obtain ⟨f', rfl⟩ : ∃ f', f = f' + 1 := ⟨f - 1, by omega⟩
      have e : ('"' :: s ++ ['"']) ++ render ts = '"' :: (s ++ '"' :: render ts) := by simp
      rw [e, replaceGo_quoted d f' '"' s _ (Or.inl rfl) hs, ih f' (by omega)]
      simp [pre, shift, render, renderTok, shiftTok]
    | sheet n q =>
      cases q with
      | true =>
        simp only [tokWF, Bool.not_eq_true'] at ht
        have hs : ∀ x ∈ n, x ≠ '\'' := by
          intro x hx e; subst e
          have : n.contains '\'' = true := List.contains_iff_mem.mpr hx
          rw [ht] at this; cases this
        simp only [render, renderTok, List.length_append, List.length_cons, List.length_nil] at hf ⊢
        obtain ⟨f', rfl⟩ : ∃ f', f = f' + 2 := ⟨f - 2, by omega⟩
        have e : ('\'' :: n ++ ['\'', '!']) ++ render ts = '\'' :: (n ++ '\'' :: ('!' :: render ts)) := by simp
        rw [e, replaceGo_quoted d (f' + 1) '\'' n _ (Or.inr rfl) hs,
          replaceGo_punct d f' '!' _ (by decide) (by decide) (by decide) (by decide), ih f' (by omega)]
        simp [pre, shift, render, renderTok, shiftTok]
      | false =>
        simp only [tokWF, Bool.and_eq_true, Bool.not_eq_true', List.all_eq_true] at ht
        obtain ⟨hne, hall⟩ := ht
        have hne' : n ≠ [] := by intro e; subst e; simp at hne
        simp only [render, renderTok, List.length_append, List.length_cons, List.length_nil] at hf ⊢
        have hlen : 1 ≤ n.length := by
          cases n with
          | nil => exact absurd rfl hne'
          | cons _ _ => simp
        obtain ⟨f', rfl⟩ : ∃ f', f = f' + 2 := ⟨f - 2, by omega⟩
        rw [List.append_assoc, replaceGo_run d (f' + 1) n _ hne' (fun x hx => by rw [← identChar_eq]; exact hall x hx)
          (by intro x hx; simp at hx; subst hx; decide)]
        rw [runOut_call d n _ rfl, List.singleton_append, replaceGo_punct d f' '!' _ (by decide) (by decide) (by decide) (by decide), ih f' (by omega)]
        simp [pre, shift, render, renderTok, shiftTok]
    | ident s =>
      simp only [tokWF, Bool.and_eq_true, Bool.not_eq_true', List.all_eq_true, Bool.or_eq_true] at ht
      obtain ⟨⟨⟨hne, hall⟩, hend⟩, hcell⟩ := ht
      have hne' : s ≠ [] := by intro e; subst e; simp at hne
      have hlen : 1 ≤ s.length := by
        cases s with
        | nil => exact absurd rfl hne'
        | cons _ _ => simp
      simp only [render, renderTok, List.length_append] at hf ⊢
      obtain ⟨f', rfl⟩ : ∃ f', f = f' + 1 := ⟨f - 1, by omega⟩
      rw [replaceGo_run d f' s _ hne' (fun x hx => by rw [← identChar_eq]; exact hall x hx)
        (fun x hx => hnext x hx hend), ih f' (by omega)]
      have hout : runOut d s (render ts) = s := by
        rcases hcell with hc | hc
        · exact runOut_none d s _ (offsetCellRef_none_of_not_cellLike s d hc)
        · apply runOut_call
          rw [nextIsCallOrSheet_eq]; unfold firstChar at hc; rw [hc]; rfl
      rw [hout]
      simp [pre, shift, render, renderTok, shiftTok]
    | num s =>
      simp only [tokWF, Bool.and_eq_true, Bool.not_eq_true', List.all_eq_true] at ht
      obtain ⟨⟨hne, hall⟩, hend⟩ := ht
      have hne' : s ≠ [] := by intro e; subst e; simp at hne
      have hlen : 1 ≤ s.length := by
        cases s with
        | nil => exact absurd rfl hne'
        | cons _ _ => simp
      have hname : ∀ x ∈ s, isNameChar x = true := by
        intro x hx
        have := hall x hx
        simp only [Bool.or_eq_true, decide_eq_true_eq] at this
        rcases this with h | h
        · rw [isNameChar_iff]; have := (isDigit_iff x).mp h; omega
        · subst h; decide
      simp only [render, renderTok, List.length_append] at hf ⊢
      obtain ⟨f', rfl⟩ : ∃ f', f = f' + 1 := ⟨f - 1, by omega⟩
      rw [replaceGo_run d f' s _ hne' hname (fun x hx => hnext x hx hend), ih f' (by omega),
        runOut_none d s _ (offsetCellRef_num s d hall)]
      simp [pre, shift, render, renderTok, shiftTok]
    | ref ca c ra r =>
      simp only [tokWF, Bool.and_eq_true, decide_eq_true_eq] at ht
      obtain ⟨⟨⟨⟨hc, hr⟩, hin⟩, hend⟩, hcall⟩ := ht
      unfold FormulaTokens.MAX_COLUMNS at hc
      unfold FormulaTokens.MAX_ROWS at hr
      obtain ⟨hname, hne'⟩ := render_ref_nameChars ca ra c r hc
      have hlen : 1 ≤ (renderTok (.ref ca c ra r)).length := by
        cases h : renderTok (.ref ca c ra r) with
        | nil => exact absurd h hne'
        | cons _ _ => simp
      simp only [render, List.length_append] at hf ⊢
      obtain ⟨f', rfl⟩ : ∃ f', f = f' + 1 := ⟨f - 1, by omega⟩
      have hnc : nextIsCallOrSheet (render ts) = false := by
        rw [nextIsCallOrSheet_eq]; unfold firstChar at hcall; rw [hcall]; rfl
      rw [replaceGo_run d f' _ _ hne' hname (fun x hx => hnext x hx hend), ih f' (by omega),
        runOut_some d _ _ _ (offsetCellRef_ref ca ra c r d hc hr hin) hnc]
      simp [pre, shift, render]

/-- **translate_correct** (after D13): on every well-formed (unambiguously rendered) token list
    the implementation's rewriting is the translation of the formula: relative components of
    references move by the offset, absolute components, strings, sheet names, function and
    defined names, numbers and punctuation are reproduced unchanged. -/
theorem translate_correct (toks : List Tok) (d : Int × Int) (h : WF toks d) :
    replaceCellNames (render toks) d = .ok (render (shift toks d)) :=
  translate_go toks d h _ (Nat.le_refl _)

/-- `replace_cell_names` returns `Ok` on every text (after D13: no error on non-ASCII text, no
    panic, and the model's loop budget `fuel = length` always suffices). -/
theorem replace_never_fails (s : List Char) (d : Int × Int) : ∃ r, replaceCellNames s d = .ok r :=
  replaceGo_ok d s.length s (Nat.le_refl _)

/-- **strings_opaque**: a quoted region (`"…"` string literal or `'…'` sheet name) is reproduced
    unchanged whatever it contains, and the text after it is translated as if it stood alone. -/
theorem strings_opaque (q : Char) (hq : q = '"' ∨ q = '\'') (s rest : List Char) (d : Int × Int)
    (hs : ∀ x ∈ s, x ≠ q) :
    replaceCellNames (q :: (s ++ q :: rest)) d = pre (q :: s ++ [q]) (replaceCellNames rest d) := by
  have hlen : (q :: (s ++ q :: rest)).length = (s.length + rest.length + 1) + 1 := by
    simp only [List.length_cons, List.length_append]; omega
  unfold replaceCellNames
  rw [hlen, replaceGo_quoted d _ q s rest hq hs, replaceGo_fuel d _ rest (by omega)]
  rfl

/-- **structs_opaque**: a balanced bracketed span `[…]` (structured-reference specifier, workbook
    index) is reproduced unchanged whatever it contains, and the text after it is translated as if it
    stood alone. -/
theorem structs_opaque (s rest : List Char) (d : Int × Int) (hs : bracketScan 0 s = some 0) :
    replaceCellNames ('[' :: (s ++ ']' :: rest)) d = pre ('[' :: s ++ [']']) (replaceCellNames rest d) := by
  have hlen : ('[' :: (s ++ ']' :: rest)).length = (s.length + rest.length + 1) + 1 := by
    simp only [List.length_cons, List.length_append]; omega
  unfold replaceCellNames
  rw [hlen, replaceGo_bracket d _ s rest hs, replaceGo_fuel d _ rest (by omega)]
  rfl

/-- **idents_unchanged**: a maximal run of identifier characters that does not look like a cell of
    the sheet, or that is followed by `(` (function name) or `!` (sheet name), is reproduced
    unchanged, and the text after it is translated as if it stood alone. -/
theorem idents_unchanged (run rest : List Char) (d : Int × Int) (hne : run ≠ [])
    (hrun : ∀ x ∈ run, identChar x = true) (hmax : endsRun rest.head? = true)
    (h : cellLike run = false ∨ notCallOrSheet rest.head? = false) :
    replaceCellNames (run ++ rest) d = pre run (replaceCellNames rest d) := by
  have hlen : 1 ≤ run.length := by
    cases run with
    | nil => exact absurd rfl hne
    | cons _ _ => simp
  obtain ⟨f, hf⟩ : ∃ f, (run ++ rest).length = f + 1 := ⟨(run ++ rest).length - 1, by simp only [List.length_append]; omega⟩
  have hrest : ∀ x, rest.head? = some x → isNameChar x = false := by
    intro x hx; rw [hx] at hmax; simpa [endsRun, identChar_eq] using hmax
  unfold replaceCellNames
  rw [hf, replaceGo_run d f run rest hne (fun x hx => by rw [← identChar_eq]; exact hrun x hx) hrest,
    replaceGo_fuel d f rest (by simp only [List.length_append] at hf; omega)]
  have hout : runOut d run rest = run := by
    rcases h with hc | hc
    · exact runOut_none d run rest (offsetCellRef_none_of_not_cellLike run d hc)
    · apply runOut_call; rw [nextIsCallOrSheet_eq, hc]; rfl
  rw [hout]; rfl

/-- **group_covers_ref** (after D11), against a description that does not mention the code's
    `Dimensions::contains`: for every master position `(mr, mc)`, every declared rectangle
    `(sr, sc)–(er, ec)` and every cell `(r, c)` of the sheet,
    * the cell gets an offset iff `sr ≤ r ≤ er` and `sc ≤ c ≤ ec`,
    * and the offset it gets is `(r − mr, c − mc)`; outside the rectangle it gets none. -/
theorem group_covers_ref (text : List Char) (sr sc er ec mr mc r c : Nat) :
    let g : Group := ⟨text, ⟨sr, sc, er, ec⟩, (mr, mc)⟩
    (g.offsetOf (r, c) = some ((r : Int) - (mr : Int), (c : Int) - (mc : Int))
        ↔ (sr ≤ r ∧ r ≤ er ∧ sc ≤ c ∧ c ≤ ec))
    ∧ (g.offsetOf (r, c) = none ↔ ¬ (sr ≤ r ∧ r ≤ er ∧ sc ≤ c ∧ c ≤ ec))
    ∧ (∀ o, g.offsetOf (r, c) = some o → o = ((r : Int) - (mr : Int), (c : Int) - (mc : Int))) := by
  intro g
  by_cases h : sr ≤ r ∧ r ≤ er ∧ sc ≤ c ∧ c ≤ ec
  · have e : g.offsetOf (r, c) = some ((r : Int) - (mr : Int), (c : Int) - (mc : Int)) := by
      obtain ⟨h1, h2, h3, h4⟩ := h
      simp [g, Group.offsetOf, Rect.contains, h1, h2, h3, h4]
    refine ⟨⟨fun _ => h, fun _ => e⟩, ⟨fun hn => ?_, fun hn => absurd h hn⟩, ?_⟩
    · rw [e] at hn; cases hn
    · intro o ho; rw [e] at ho; cases ho; rfl
  · have e : g.offsetOf (r, c) = none := by
      have : (decide (r ≥ sr) && decide (r ≤ er) && decide (c ≥ sc) && decide (c ≤ ec)) = false := by
        cases hh : (decide (r ≥ sr) && decide (r ≤ er) && decide (c ≥ sc) && decide (c ≤ ec)) with
        | false => rfl
        | true =>
          simp only [Bool.and_eq_true, decide_eq_true_eq, ge_iff_le] at hh
          exact absurd ⟨hh.1.1.1, hh.1.1.2, hh.1.2, hh.2⟩ h
      simp [g, Group.offsetOf, Rect.contains, this]
    refine ⟨⟨fun hs => ?_, fun hh => absurd hh h⟩, ⟨fun _ => h, fun _ => e⟩, ?_⟩
    · rw [e] at hs; cases hs
    · intro o ho; rw [e] at ho; cases ho

/-- the same by enumeration: the cell `i` rows and `j` columns from the top-left corner of a
    declared range of height `h` and width `w` (`h = 1`: a row, `w = 1`: a column, otherwise a block)
    has the offset "its position − master position", whatever the master position -/
theorem group_covers_ref_enum (text : List Char) (sr sc h w mr mc i j : Nat) (hi : i < h) (hj : j < w) :
    (Group.mk text ⟨sr, sc, sr + (h - 1), sc + (w - 1)⟩ (mr, mc)).offsetOf (sr + i, sc + j)
      = some (((sr + i : Nat) : Int) - (mr : Int), ((sc + j : Nat) : Int) - (mc : Int)) :=
  ((group_covers_ref text sr sc (sr + (h - 1)) (sc + (w - 1)) mr mc (sr + i) (sc + j)).1).mpr
    ⟨by omega, by omega, by omega, by omega⟩

/-- storing the masters of a list of groups -/
def storeAll (t : Table) (defs : List (Nat × Group)) : Table :=
  defs.foldl (fun t p => t.store p.1 p.2) t

/-- **si_any_order** (after D12): formulas are stored and looked up by `si`, whatever the order in
    which the masters appear: after storing groups with pairwise distinct `si` in any order, looking
    up the `si` of any of them yields exactly that group. -/
theorem si_any_order (t : Table) (defs : List (Nat × Group)) (hd : (defs.map Prod.fst).Nodup)
    (si : Nat) (g : Group) (hm : (si, g) ∈ defs) : (storeAll t defs).lookup si = some g := by
  unfold storeAll
  induction defs generalizing t with
  | nil => cases hm
  | cons p ps ih =>
    simp only [List.map_cons, List.nodup_cons] at hd
    simp only [List.foldl_cons]
    rcases List.mem_cons.mp hm with h | h
    · -- stored now, never overwritten later
      subst h
      have keep : ∀ (qs : List (Nat × Group)) (t' : Table), si ∉ qs.map Prod.fst →
          t'.lookup si = some g → (qs.foldl (fun t p => t.store p.1 p.2) t').lookup si = some g := by
        intro qs
        induction qs with
        | nil => intro t' _ h; exact h
        | cons q qs ihq =>
          intro t' hn h
          simp only [List.map_cons, List.mem_cons, not_or] at hn
          simp only [List.foldl_cons]
          exact ihq _ hn.2 (by rw [Table.lookup_store_ne _ _ _ _ hn.1]; exact h)
      exact keep ps _ hd.1 (Table.lookup_store_same t si g)
    · exact ih _ hd.2 h

/-- the table holds at most one entry per declared group, whatever the values of `si` (the repair of
    the table-sized-by-`si` regression: memory follows the number of groups) -/
theorem table_size_bounded (t : Table) (defs : List (Nat × Group)) :
    (storeAll t defs).length ≤ t.length + defs.length := by
  unfold storeAll
  induction defs generalizing t with
  | nil => simp
  | cons p ps ih =>
    simp only [List.foldl_cons, List.length_cons]
    have h1 := ih (t.store p.1 p.2)
    have h2 := Table.store_length t p.1 p.2
    omega

/-- a permutation of the master definitions gives the same lookups -/
theorem si_any_order_perm (t : Table) (defs defs' : List (Nat × Group)) (hp : defs.Perm defs')
    (hd : (defs.map Prod.fst).Nodup) (si : Nat) (g : Group) (hm : (si, g) ∈ defs) :
    (storeAll t defs').lookup si = (storeAll t defs).lookup si := by
  rw [si_any_order t defs hd si g hm,
    si_any_order t defs' ((hp.map Prod.fst).nodup_iff.mp hd) si g (hp.mem_iff.mp hm)]

/-- **master_formula**: the master cell of a group reports its own formula text, and from then on
    the group is found under its `si` (with its declared range and the master's position). -/
theorem master_formula (t : Table) (pos : Nat × Nat) (text : List Char) (si : Nat) (ref : Rect) :
    ∃ t', cellFormula t ⟨pos, some (text, some ⟨some si, some ref⟩)⟩ = .ok (t', text)
      ∧ t'.lookup si = some ⟨text, ref, pos⟩
      ∧ ∀ sj, sj ≠ si → t'.lookup sj = t.lookup sj :=
  ⟨t.store si ⟨text, ref, pos⟩, rfl, Table.lookup_store_same _ _ _,
    fun sj h => Table.lookup_store_ne t sj si _ h⟩

/-- **non_members_unaffected**: a cell without formula has none, a cell with a formula of its own
    keeps it, a cell that names a group but lies outside the group's declared range (or names an
    unknown group) keeps its own text; none of them changes the table of groups. -/
theorem non_members_unaffected (t : Table) (pos : Nat × Nat) (text : List Char) :
    cellFormula t ⟨pos, none⟩ = .ok (t, [])
    ∧ cellFormula t ⟨pos, some (text, none)⟩ = .ok (t, text)
    ∧ (∀ si, t.lookup si = none → cellFormula t ⟨pos, some (text, some ⟨some si, none⟩)⟩ = .ok (t, text))
    ∧ (∀ si g, t.lookup si = some g → g.ref.contains pos.1 pos.2 = false →
        cellFormula t ⟨pos, some (text, some ⟨some si, none⟩)⟩ = .ok (t, text)) := by
  refine ⟨rfl, rfl, ?_, ?_⟩
  · intro si h; simp [cellFormula, h]
  · intro si g h hc; simp [cellFormula, h, Group.offsetOf, hc]

/-- the table after a sequence of cells (when none of them fails) -/
def runTable : Table → List CellIn → Res Table
  | t, [] => .ok t
  | t, c :: cs =>
    match cellFormula t c with
    | .ok (t', _) => runTable t' cs
    | .err e => .err e
    | .panic e => .panic e
    | .outOfFuel => .outOfFuel

/-- the cell defines the group `si` -/
def definesGroup (c : CellIn) (si : Nat) : Prop :=
  ∃ text ref, c.f = some (text, some ⟨some si, some ref⟩)

theorem lookup_after_cell (t t' : Table) (c : CellIn) (v : List Char) (si : Nat)
    (h : cellFormula t c = .ok (t', v)) (hnd : ¬ definesGroup c si) : t'.lookup si = t.lookup si := by
  obtain ⟨pos, f⟩ := c
  unfold cellFormula at h
  cases f with
  | none => simp at h; rw [← h.1]
  | some p =>
    obtain ⟨text, sh⟩ := p
    cases sh with
    | none => simp at h; rw [← h.1]
    | some a =>
      obtain ⟨osi, oref⟩ := a
      cases osi with
      | none => simp at h
      | some sj =>
        cases oref with
        | some ref =>
          simp at h
          rw [← h.1]
          apply Table.lookup_store_ne
          intro e; subst e
          exact hnd ⟨text, ref, rfl⟩
        | none =>
          simp only at h
          split at h
          · split at h
            · split at h <;> first | (simp at h; rw [← h.1]) | cases h
            · simp at h; rw [← h.1]
          · simp at h; rw [← h.1]

theorem lookup_after_cells (cells : List CellIn) (t t' : Table) (si : Nat)
    (h : runTable t cells = .ok t') (hnd : ∀ c ∈ cells, ¬ definesGroup c si) :
    t'.lookup si = t.lookup si := by
  induction cells generalizing t with
  | nil => simp [runTable] at h; rw [h]
  | cons c cs ih =>
    unfold runTable at h
    cases hc : cellFormula t c with
    | ok p =>
      obtain ⟨t1, v⟩ := p
      rw [hc] at h
      rw [ih t1 h (fun x hx => hnd x (by simp [hx])), lookup_after_cell t t1 c v si hc (hnd c (by simp))]
    | err e => rw [hc] at h; cases h
    | panic e => rw [hc] at h; cases h
    | outOfFuel => rw [hc] at h; cases h

/-- **member_formula** (the property, end to end on the model of `next_formula`): in any sheet,
    a member cell `c` of the group `si` — the master `m` with formula `render toks` and declared
    range `ref` appears earlier, no cell in between redefines `si`, and `c` lies in `ref` — reports
    the master formula translated by `c.pos − m.pos`, provided the formula is well-formed for that
    offset; the cells before the master and between master and member are arbitrary (other groups in
    any `si` order, non-members). -/
theorem member_formula (t0 t : Table) (before between : List CellIn) (m c : CellIn)
    (toks : List Tok) (si : Nat) (ref : Rect) (own : List Char)
    (hm : m.f = some (render toks, some ⟨some si, some ref⟩))
    (hbetween : ∀ x ∈ between, ¬ definesGroup x si)
    (hc : c.f = some (own, some ⟨some si, none⟩))
    (hin : ref.contains c.pos.1 c.pos.2 = true)
    (hwf : WF toks ((c.pos.1 : Int) - (m.pos.1 : Int), (c.pos.2 : Int) - (m.pos.2 : Int)))
    (hrun : runTable t0 (before ++ m :: between) = .ok t) :
    cellFormula t c = .ok (t, render (shift toks ((c.pos.1 : Int) - (m.pos.1 : Int), (c.pos.2 : Int) - (m.pos.2 : Int)))) := by
  -- the table just after the master
  have split : ∀ (l : List CellIn) (ta : Table), runTable ta (l ++ m :: between) = .ok t →
      ∃ tb tc, cellFormula tb m = .ok (tc, render toks) ∧ runTable tc between = .ok t := by
    intro l
    induction l with
    | nil =>
      intro ta h
      simp only [List.nil_append, runTable] at h
      obtain ⟨mpos, mf⟩ := m
      simp only at hm; subst hm
      simp only [cellFormula] at h ⊢
      exact ⟨ta, _, rfl, h⟩
    | cons x xs ih =>
      intro ta h
      simp only [List.cons_append, runTable] at h
      cases hx : cellFormula ta x with
      | ok p => rw [hx] at h; exact ih p.1 h
      | err e => rw [hx] at h; cases h
      | panic e => rw [hx] at h; cases h
      | outOfFuel => rw [hx] at h; cases h
  obtain ⟨tb, tc, hmc, hbt⟩ := split before t0 hrun
  have htc : tc.lookup si = some ⟨render toks, ref, m.pos⟩ := by
    obtain ⟨mpos, mf⟩ := m
    simp only at hm; subst hm
    simp only [cellFormula, Res.ok.injEq, Prod.mk.injEq] at hmc
    rw [← hmc.1]; exact Table.lookup_store_same _ _ _
  have ht : t.lookup si = some ⟨render toks, ref, m.pos⟩ := by
    rw [lookup_after_cells between tc t si hbt hbetween, htc]
  obtain ⟨cpos, cf⟩ := c
  simp only at hc hin hwf ⊢; subst hc
  simp only [cellFormula, ht, Group.offsetOf, hin, if_true]
  rw [translate_correct toks _ hwf]

/-- `worksheet_formula` reports exactly what `next_formula` computes cell by cell: if the sheet is
    read without error, then for every cell `c` of the sheet (`cells = a ++ c :: b`) the table `ta`
    reached after the cells before it and the text `v` computed for it satisfy: `v` non-empty ⇒
    `(c.pos, v)` is in the reported list. Together with `member_formula` this carries the property
    to the output of `worksheet_formula`. -/
theorem sheet_reports_cell (t : Table) (a b : List CellIn) (c : CellIn) (out : List ((Nat × Nat) × List Char))
    (h : sheetFormulas t (a ++ c :: b) = .ok out) :
    ∃ ta tb v, runTable t a = .ok ta ∧ cellFormula ta c = .ok (tb, v) ∧ (v ≠ [] → (c.pos, v) ∈ out) := by
  induction a generalizing t out with
  | nil =>
    simp only [List.nil_append, sheetFormulas] at h
    cases hc : cellFormula t c with
    | ok p =>
      obtain ⟨t', v⟩ := p
      simp only [hc] at h
      cases hr : sheetFormulas t' b with
      | ok rest =>
        simp only [hr, Res.ok.injEq] at h
        refine ⟨t, t', v, rfl, hc, ?_⟩
        intro hv
        rw [if_neg hv] at h
        rw [← h]; simp
      | err e => simp only [hr] at h; cases h
      | panic e => simp only [hr] at h; cases h
      | outOfFuel => simp only [hr] at h; cases h
    | err e => simp only [hc] at h; cases h
    | panic e => simp only [hc] at h; cases h
    | outOfFuel => simp only [hc] at h; cases h
  | cons x xs ih =>
    simp only [List.cons_append, sheetFormulas] at h
    cases hx : cellFormula t x with
    | ok p =>
      obtain ⟨t', vx⟩ := p
      simp only [hx] at h
      cases hr : sheetFormulas t' (xs ++ c :: b) with
      | ok rest =>
        simp only [hr, Res.ok.injEq] at h
        obtain ⟨ta, tb, v, h1, h2, h3⟩ := ih t' rest hr
        refine ⟨ta, tb, v, ?_, h2, ?_⟩
        · simp only [runTable, hx]; exact h1
        · intro hv
          rw [← h]
          split
          · exact h3 hv
          · exact List.mem_cons_of_mem _ (h3 hv)
      | err e => simp only [hr] at h; cases h
      | panic e => simp only [hr] at h; cases h
      | outOfFuel => simp only [hr] at h; cases h
    | err e => simp only [hx] at h; cases h
    | panic e => simp only [hx] at h; cases h
    | outOfFuel => simp only [hx] at h; cases h

/-- the `ref` attribute as written (`B1:C2`, or `B1` for a single cell) is read back by
    `get_dimension` as the declared range, for all positions of the sheet's columns -/
theorem ref_attribute_roundtrip (p q : Nat × Nat) (hp : p.2 < 16384) (hq : q.2 < 16384) :
    getDimension (a1 p ++ ':' :: a1 q) = .ok ⟨p.1, p.2, q.1, q.2⟩
    ∧ getDimension (a1 p) = .ok ⟨p.1, p.2, p.1, p.2⟩ := by
  constructor
  · unfold getDimension
    rw [splitColon_one _ _ (a1_no_colon p hp) (a1_no_colon q hq)]
    simp only [getRowColumn_a1 p hp, getRowColumn_a1 q hq]
  · unfold getDimension
    rw [splitColon_none _ (a1_no_colon p hp)]
    simp only [getRowColumn_a1 p hp]

/-! ### the whole sheet, exactly

    A description of what `worksheet_formula` must return that does not mention the table of groups:
    the group a follower belongs to is found by looking back through the cells written before it. -/

/-- the group `si` as declared by the last master with that `si` among the cells `before` -/
def lastMaster (before : List CellIn) (si : Nat) : Option Group :=
  before.reverse.findSome? fun c =>
    match c.f with
    | some (text, some ⟨some sj, some ref⟩) => if sj = si then some ⟨text, ref, c.pos⟩ else none
    | _ => none

/-- the translated text (total: `replace_cell_names` never fails, `replace_never_fails`) -/
def translate (text : List Char) (d : Int × Int) : List Char :=
  match replaceCellNames text d with
  | .ok r => r
  | _ => []

/-- the formula a cell must report, given the cells written before it: nothing without `<f>`; its own
    text for a plain formula and for a master; for a follower of group `si` the text of the last
    master of `si` translated by (position − master position) if the cell lies in that master's declared
    range, and its own text otherwise (no such master, or outside the range) -/
def specText (before : List CellIn) (c : CellIn) : List Char :=
  match c.f with
  | none => []
  | some (text, none) => text
  | some (text, some ⟨_, some _⟩) => text
  | some (text, some ⟨none, none⟩) => text
  | some (text, some ⟨some si, none⟩) =>
    match lastMaster before si with
    | some g =>
      if g.ref.sr ≤ c.pos.1 ∧ c.pos.1 ≤ g.ref.er ∧ g.ref.sc ≤ c.pos.2 ∧ c.pos.2 ≤ g.ref.ec then
        translate g.text ((c.pos.1 : Int) - (g.master.1 : Int), (c.pos.2 : Int) - (g.master.2 : Int))
      else text
    | none => text

/-- the list `worksheet_formula` must hand to `Range::from_sparse`: the cells with a non-empty
    formula, in document order -/
def specOut : List CellIn → List CellIn → List ((Nat × Nat) × List Char)
  | _, [] => []
  | before, c :: cs =>
    (if specText before c = [] then [] else [(c.pos, specText before c)]) ++ specOut (before ++ [c]) cs

/-- every `t="shared"` formula carries a numeric `si` (otherwise the reader returns an error) -/
def hasSi (c : CellIn) : Prop :=
  ∀ text ref, c.f ≠ some (text, some ⟨none, ref⟩)

theorem lastMaster_snoc (before : List CellIn) (c : CellIn) (si : Nat) :
    lastMaster (before ++ [c]) si =
      match c.f with
      | some (text, some ⟨some sj, some ref⟩) => if sj = si then some ⟨text, ref, c.pos⟩ else lastMaster before si
      | _ => lastMaster before si := by
  unfold lastMaster
  rw [List.reverse_append]
  simp only [List.reverse_cons, List.reverse_nil, List.nil_append, List.cons_append, List.findSome?_cons]
  obtain ⟨pos, f⟩ := c
  cases f with
  | none => rfl
  | some p =>
    obtain ⟨text, sh⟩ := p
    cases sh with
    | none => rfl
    | some a =>
      obtain ⟨osi, oref⟩ := a
      cases osi with
      | none => rfl
      | some sj =>
        cases oref with
        | none => rfl
        | some ref =>
          simp only
          by_cases h : sj = si
          · simp [h]
          · simp [h]

/-- one cell: the model of `next_formula` computes `specText`, and keeps the table equal to "last
    master per `si`" -/
theorem cellFormula_spec (t : Table) (before : List CellIn) (c : CellIn) (hsi : hasSi c)
    (hinv : ∀ si, t.lookup si = lastMaster before si) :
    ∃ t', cellFormula t c = .ok (t', specText before c) ∧ ∀ si, t'.lookup si = lastMaster (before ++ [c]) si := by
  obtain ⟨pos, f⟩ := c
  cases f with
  | none => exact ⟨t, rfl, fun si => by rw [lastMaster_snoc]; exact hinv si⟩
  | some p =>
    obtain ⟨text, sh⟩ := p
    cases sh with
    | none => exact ⟨t, rfl, fun si => by rw [lastMaster_snoc]; exact hinv si⟩
    | some a =>
      obtain ⟨osi, oref⟩ := a
      cases osi with
      | none => exact absurd rfl (hsi text oref)
      | some sj =>
        cases oref with
        | some ref =>
          refine ⟨t.store sj ⟨text, ref, pos⟩, rfl, fun si => ?_⟩
          rw [lastMaster_snoc]
          simp only
          by_cases h : sj = si
          · subst h; simp [Table.lookup_store_same]
          · rw [if_neg h, Table.lookup_store_ne _ _ _ _ (fun e => h e.symm)]; exact hinv si
        | none =>
          refine ⟨t, ?_, fun si => by rw [lastMaster_snoc]; exact hinv si⟩
          simp only [cellFormula, specText, hinv sj]
          cases hl : lastMaster before sj with
          | none => rfl
          | some g =>
            simp only [Group.offsetOf, Rect.contains]
            by_cases hin : g.ref.sr ≤ pos.1 ∧ pos.1 ≤ g.ref.er ∧ g.ref.sc ≤ pos.2 ∧ pos.2 ≤ g.ref.ec
            · obtain ⟨h1, h2, h3, h4⟩ := hin
              simp only [ge_iff_le, h1, h2, h3, h4, decide_true, Bool.and_self, if_true, and_self]
              obtain ⟨r, hr⟩ := replace_never_fails g.text ((pos.1 : Int) - (g.master.1 : Int), (pos.2 : Int) - (g.master.2 : Int))
              simp only [hr, translate]
            · rw [if_neg hin]
              have : (decide (pos.1 ≥ g.ref.sr) && decide (pos.1 ≤ g.ref.er) && decide (pos.2 ≥ g.ref.sc) && decide (pos.2 ≤ g.ref.ec)) = false := by
                cases hh : (decide (pos.1 ≥ g.ref.sr) && decide (pos.1 ≤ g.ref.er) && decide (pos.2 ≥ g.ref.sc) && decide (pos.2 ≤ g.ref.ec)) with
                | false => rfl
                | true =>
                  simp only [Bool.and_eq_true, decide_eq_true_eq, ge_iff_le] at hh
                  exact absurd ⟨hh.1.1.1, hh.1.1.2, hh.1.2, hh.2⟩ hin
              simp [this]

theorem sheetFormulas_spec (cells before : List CellIn) (t : Table) (hsi : ∀ c ∈ cells, hasSi c)
    (hinv : ∀ si, t.lookup si = lastMaster before si) :
    sheetFormulas t cells = .ok (specOut before cells) := by
  induction cells generalizing before t with
  | nil => rfl
  | cons c cs ih =>
    obtain ⟨t', h1, h2⟩ := cellFormula_spec t before c (hsi c (by simp)) hinv
    simp only [sheetFormulas, h1, ih (before ++ [c]) t' (fun x hx => hsi x (by simp [hx])) h2, specOut]
    split <;> simp [*]

/-- **sheet_formulas_exact**: on every sheet whose shared formulas carry an `si`, the list
    `worksheet_formula` builds is *exactly* `specOut [] cells` — every cell with a non-empty expected
    formula appears once, with that formula, in document order, and nothing else appears: masters and
    plain formulas with their own text, members with the translated master, cells outside every
    group (and cells without `<f>`) unaffected. -/
theorem sheet_formulas_exact (cells : List CellIn) (hsi : ∀ c ∈ cells, hasSi c) :
    sheetFormulas [] cells = .ok (specOut [] cells) :=
  sheetFormulas_spec cells [] [] hsi (fun _ => rfl)

/-- consequence: a position is reported iff some cell at that position has a non-empty expected formula -/
theorem specOut_mem (cells before : List CellIn) (p : Nat × Nat) (v : List Char) :
    (p, v) ∈ specOut before cells ↔
      ∃ a c b, cells = a ++ c :: b ∧ c.pos = p ∧ specText (before ++ a) c = v ∧ v ≠ [] := by
  induction cells generalizing before with
  | nil => simp [specOut]
  | cons x xs ih =>
    simp only [specOut, List.mem_append]
    constructor
    · intro h
      rcases h with h | h
      · split at h
        · cases h
        · rename_i hne
          simp only [List.mem_cons, List.not_mem_nil, or_false, Prod.mk.injEq] at h
          exact ⟨[], x, xs, rfl, h.1.symm, by simp [h.2], by rw [h.2]; exact hne⟩
      · obtain ⟨a, c, b, e, hp, hv, hne⟩ := (ih (before ++ [x])).mp h
        exact ⟨x :: a, c, b, by rw [e]; rfl, hp, by simpa [List.append_assoc] using hv, hne⟩
    · intro ⟨a, c, b, e, hp, hv, hne⟩
      cases a with
      | nil =>
        simp only [List.nil_append, List.cons.injEq] at e
        obtain ⟨e1, _⟩ := e
        subst e1
        left
        simp only [List.append_nil] at hv
        rw [hv, if_neg hne, hp]; simp
      | cons y ys =>
        simp only [List.cons_append, List.cons.injEq] at e
        obtain ⟨e1, e2⟩ := e
        subst e1
        right
        exact (ih (before ++ [x])).mpr ⟨ys, c, b, e2, hp, by simpa [List.append_assoc] using hv, hne⟩

/-! ### the same on the XML events of the worksheet part

    `XlsxFormula.readFormulas` is the event-level model of `next_formula` (C01's event model, C14's
    formula reader, extended with the shared-formula arms); `SharedSheet.render` writes a logical sheet
    with shared groups as the event list of `<worksheet><sheetData><row><c><f t="shared" …>`. -/

open SharedSheet in
/-- what the reader must report for every `<c>` of the sheet, in document order (UTF-8 text, empty for a
    cell without formula), by the table-free description `specText` -/
def specAll : List CellIn → List CellIn → List (Nat × Nat × XlsxCells.Bytes)
  | _, [] => []
  | before, c :: cs => (c.pos.1, c.pos.2, Utf8.utf8Encode (specText before c)) :: specAll (before ++ [c]) cs

theorem specAll_append (before x y : List CellIn) :
    specAll before (x ++ y) = specAll before x ++ specAll (before ++ x) y := by
  induction x generalizing before with
  | nil => simp [specAll]
  | cons c cs ih => simp [specAll, ih, List.append_assoc]

theorem specAll_length (before x : List CellIn) : (specAll before x).length = x.length := by
  induction x generalizing before with
  | nil => rfl
  | cons c cs ih => simp [specAll, ih]

theorem texts_spec (cells before : List CellIn) (t : Table) (hsi : ∀ c ∈ cells, hasSi c)
    (hinv : ∀ si, t.lookup si = lastMaster before si) :
    SharedSheet.texts t cells = specAll before cells := by
  induction cells generalizing before t with
  | nil => rfl
  | cons c cs ih =>
    obtain ⟨t', h1, h2⟩ := cellFormula_spec t before c (hsi c (by simp)) hinv
    have hs : SharedSheet.stepCell t c = (t', specText before c) := by simp [SharedSheet.stepCell, h1]
    simp only [SharedSheet.texts, specAll, hs]
    rw [ih (before ++ [c]) t' (fun x hx => hsi x (by simp [hx])) h2]

theorem toCells_hasSi (s : SharedSheet.SSheet) : ∀ c ∈ SharedSheet.toCells s, hasSi c := by
  intro c hc
  simp only [SharedSheet.toCells, SharedSheet.rowCells, List.mem_flatMap, List.mem_map] at hc
  obtain ⟨row, _, cell, _, rfl⟩ := hc
  intro text ref h
  unfold SharedSheet.toCellIn at h
  cases hf : cell.2.f <;> simp [hf] at h

/-- **sheet_events_exact**: on the XML events of any well-formed rendered sheet with shared groups (any
    shapes, any master positions, any `si` values and order, non-member cells, either element prefix)
    the event-level model of `next_formula` reports, for every `<c>` in document order, exactly the text
    the table-free description `specText` prescribes: own text for masters and plain formulas, the
    translated master for members, nothing for the others. -/
theorem sheet_events_exact (s : SharedSheet.SSheet) (p : Bool) (hwf : s.WF) :
    XlsxFormula.readFormulas (SharedSheet.render s p) = .ok (specAll [] (SharedSheet.toCells s)) := by
  rw [SharedSheet.readFormulas_render s p hwf, texts_spec _ [] [] (toCells_hasSi s) (fun _ => rfl)]

theorem lastMaster_append_nodef (b l : List CellIn) (si : Nat) (h : ∀ x ∈ b, ¬ definesGroup x si) :
    lastMaster (l ++ b) si = lastMaster l si := by
  induction b generalizing l with
  | nil => simp
  | cons x xs ih =>
    have e : l ++ x :: xs = (l ++ [x]) ++ xs := by simp
    rw [e, ih (l ++ [x]) (fun y hy => h y (by simp [hy])), lastMaster_snoc]
    have hx := h x (by simp)
    obtain ⟨pos, f⟩ := x
    cases f with
    | none => rfl
    | some q =>
      obtain ⟨text, sh⟩ := q
      cases sh with
      | none => rfl
      | some a =>
        obtain ⟨osi, oref⟩ := a
        cases osi with
        | none => rfl
        | some sj =>
          cases oref with
          | none => rfl
          | some ref =>
            simp only
            by_cases hs : sj = si
            · subst hs; exact absurd ⟨text, ref, rfl⟩ hx
            · rw [if_neg hs]

/-- **member_formula_events**: on the events of a rendered sheet containing shared groups, a follower
    `c` of group `si` (its master `m` with text `render toks` and declared range `ref` comes earlier in
    the document, no cell in between redefines `si`, `c` lies in `ref`) is reported with the master formula
    translated by `c.pos − m.pos` — `replace_cell_names(master, Δ)`, which is `render (shift toks Δ)` for a
    formula well-formed for that offset — at its place in the document order. -/
theorem member_formula_events (s : SharedSheet.SSheet) (p : Bool) (hwf : s.WF)
    (a b rest : List CellIn) (m c : CellIn) (toks : List Tok) (si : Nat) (ref : Rect) (own : List Char)
    (hcells : SharedSheet.toCells s = a ++ m :: b ++ c :: rest)
    (hm : m.f = some (render toks, some ⟨some si, some ref⟩))
    (hb : ∀ x ∈ b, ¬ definesGroup x si)
    (hc : c.f = some (own, some ⟨some si, none⟩))
    (hin : ref.contains c.pos.1 c.pos.2 = true)
    (hwfT : WF toks ((c.pos.1 : Int) - (m.pos.1 : Int), (c.pos.2 : Int) - (m.pos.2 : Int))) :
    ∃ l1 l2, XlsxFormula.readFormulas (SharedSheet.render s p) =
        .ok (l1 ++ (c.pos.1, c.pos.2, Utf8.utf8Encode
              (render (shift toks ((c.pos.1 : Int) - (m.pos.1 : Int), (c.pos.2 : Int) - (m.pos.2 : Int))))) :: l2)
      ∧ l1.length = a.length + 1 + b.length
      ∧ replaceCellNames (render toks) ((c.pos.1 : Int) - (m.pos.1 : Int), (c.pos.2 : Int) - (m.pos.2 : Int))
          = .ok (render (shift toks ((c.pos.1 : Int) - (m.pos.1 : Int), (c.pos.2 : Int) - (m.pos.2 : Int)))) := by
  have htr := translate_correct toks _ hwfT
  have hlm : lastMaster (a ++ m :: b) si = some ⟨render toks, ref, m.pos⟩ := by
    have e : a ++ m :: b = (a ++ [m]) ++ b := by simp
    rw [e, lastMaster_append_nodef b _ si hb, lastMaster_snoc, hm]
    simp
  have hspec : specText (a ++ m :: b) c
      = render (shift toks ((c.pos.1 : Int) - (m.pos.1 : Int), (c.pos.2 : Int) - (m.pos.2 : Int))) := by
    obtain ⟨cpos, cf⟩ := c
    simp only at hc hin htr ⊢
    subst hc
    simp only [Rect.contains, Bool.and_eq_true, decide_eq_true_eq, ge_iff_le] at hin
    obtain ⟨⟨⟨h1, h2⟩, h3⟩, h4⟩ := hin
    simp only [specText, hlm, h1, h2, h3, h4, and_self, if_true, translate, htr]
  refine ⟨specAll [] (a ++ m :: b), specAll ((a ++ m :: b) ++ [c]) rest, ?_, ?_, htr⟩
  · rw [sheet_events_exact s p hwf, hcells]
    have e : a ++ m :: b ++ c :: rest = (a ++ m :: b) ++ (c :: rest) := by simp
    rw [e, specAll_append]
    simp only [specAll, List.nil_append, hspec]
  · rw [specAll_length]; simp; omega

/-! ### non-vacuity: concrete instances meeting the hypotheses -/

/-- `$A1+LOG10(A$1)&"é A1"+AB1!B2` is well-formed for the offset (1, 1) … -/
def demoToks : List Tok :=
  [.ref true 0 false 0, .punct '+', .ident "LOG10".toList, .punct '(', .ref false 0 true 0, .punct ')',
   .punct '&', .str "é A1".toList, .punct '+', .sheet "AB1".toList false, .ref false 1 false 1]

example : WF demoToks (1, 1) := by decide

example : render demoToks = "$A1+LOG10(A$1)&\"é A1\"+AB1!B2".toList := by decide

/-- … and `translate_correct` gives its translation: `$A2+LOG10(B$1)&"é A1"+AB1!C3` -/
example : replaceCellNames "$A1+LOG10(A$1)&\"é A1\"+AB1!B2".toList (1, 1)
    = .ok "$A2+LOG10(B$1)&\"é A1\"+AB1!C3".toList := by
  have h := translate_correct demoToks (1, 1) (by decide)
  have e1 : render demoToks = "$A1+LOG10(A$1)&\"é A1\"+AB1!B2".toList := by decide
  have e2 : render (shift demoToks (1, 1)) = "$A2+LOG10(B$1)&\"é A1\"+AB1!C3".toList := by decide
  rw [e1, e2] at h; exact h

/-- structured references: the table name `Tbl1` (cell-like) and the specifier stay, `A1` moves -/
example : replaceCellNames "Tbl1[[#This Row],[Q1]]+A1".toList (1, 1) = .ok "Tbl1[[#This Row],[Q1]]+B2".toList := by
  let toks : List Tok := [.ident "Tbl1".toList, .struct "[#This Row],[Q1]".toList, .punct '+', .ref false 0 false 0]
  have h := translate_correct toks (1, 1) (by decide)
  have e1 : render toks = "Tbl1[[#This Row],[Q1]]+A1".toList := by decide
  have e2 : render (shift toks (1, 1)) = "Tbl1[[#This Row],[Q1]]+B2".toList := by decide
  rw [e1, e2] at h; exact h

/-- a cell-like identifier not followed by `(`, `!` or `[` is *not* well-formed (it is a reference) -/
example : ¬ WF [.ident "TAX2021".toList] (1, 0) := by decide

/-- `member_formula` on the block `B1:C2` with master `B1` = `$A1+A$1`, read after the group `si = 1`
    was defined before the group `si = 0`: the member `C2` reports `$A2+B$1`. -/
example :
    let m : CellIn := ⟨(0, 1), some ("$A1+A$1".toList, some ⟨some 0, some ⟨0, 1, 1, 2⟩⟩)⟩
    let other : CellIn := ⟨(0, 0), some ("1".toList, some ⟨some 1, some ⟨0, 0, 0, 0⟩⟩)⟩
    let c1 : CellIn := ⟨(0, 2), some ([], some ⟨some 0, none⟩)⟩
    let c : CellIn := ⟨(1, 2), some ([], some ⟨some 0, none⟩)⟩
    ∃ t, runTable [] ([other] ++ m :: [c1]) = .ok t ∧ cellFormula t c = .ok (t, "$A2+B$1".toList) := by
  intro m other c1 c
  let toks : List Tok := [.ref true 0 false 0, .punct '+', .ref false 0 true 0]
  have hr : render toks = "$A1+A$1".toList := by decide
  let t : Table := [(0, ⟨"$A1+A$1".toList, ⟨0, 1, 1, 2⟩, (0, 1)⟩), (1, ⟨"1".toList, ⟨0, 0, 0, 0⟩, (0, 0)⟩)]
  have ht : runTable [] ([other] ++ m :: [c1]) = .ok t := by decide
  refine ⟨t, ht, ?_⟩
  have hb : ∀ x ∈ [c1], ¬ definesGroup x 0 := by
    intro x hx
    simp only [List.mem_cons, List.not_mem_nil, or_false] at hx
    subst hx
    intro ⟨text, ref, h⟩
    cases h
  have := member_formula [] t [other] [c1] m c toks 0 ⟨0, 1, 1, 2⟩ [] (by rw [hr]) hb rfl (by decide)
    (by decide) ht
  have e2 : render (shift toks (((c.pos.1 : Nat) : Int) - ((m.pos.1 : Nat) : Int), ((c.pos.2 : Nat) : Int) - ((m.pos.2 : Nat) : Int)))
      = "$A2+B$1".toList := by decide
  rw [e2] at this; exact this

/-- the block `B1:C2` (master `B1` = `$A1+A$1`, `si = 7`) as XML events: the event-level reader reports
    the four cells with the translated formulas -/
def demoSheet : SharedSheet.SSheet :=
  [(0, [(1, ⟨.master 7 ⟨0, 1, 1, 2⟩ "$A1+A$1".toList, true⟩), (2, ⟨.follower 7, true⟩)]),
   (1, [(0, ⟨.plain "1+1".toList, false⟩), (1, ⟨.follower 7, true⟩), (2, ⟨.follower 7, false⟩)])]

theorem demoSheet_wf : demoSheet.WF := by
  refine ⟨by simp [demoSheet, XlsxSheet.Increasing], ?_, ?_⟩
  · intro row hrow
    simp only [demoSheet, List.mem_cons, List.not_mem_nil, or_false] at hrow
    rcases hrow with rfl | rfl <;> simp [XlsxSheet.Increasing]
  · intro row hrow c hc
    simp only [demoSheet, List.mem_cons, List.not_mem_nil, or_false] at hrow
    rcases hrow with rfl | rfl
    · simp only [List.mem_cons, List.not_mem_nil, or_false] at hc
      rcases hc with rfl | rfl <;> simp [SharedSheet.SCell.Ok]
    · simp only [List.mem_cons, List.not_mem_nil, or_false] at hc
      rcases hc with rfl | rfl | rfl <;> simp [SharedSheet.SCell.Ok]

example : XlsxFormula.readFormulas (SharedSheet.render demoSheet true) = .ok
    [(0, 1, Utf8.utf8Encode "$A1+A$1".toList), (0, 2, Utf8.utf8Encode "$A1+B$1".toList),
     (1, 0, Utf8.utf8Encode "1+1".toList), (1, 1, Utf8.utf8Encode "$A2+A$1".toList),
     (1, 2, Utf8.utf8Encode "$A2+B$1".toList)] := by
  rw [sheet_events_exact demoSheet true demoSheet_wf]
  decide

end C15
