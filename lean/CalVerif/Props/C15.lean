import CalVerif.Lemmas.SharedFormula
/-! # C15 — XLSX shared formulas expand to the translated formula of each member cell

    Model: `Model/SharedFormula.lean` (the Rust code after the fixes D11, D12, D13);
    grammar/spec: `Spec/FormulaTokens.lean`; helper lemmas: `Lemmas/SharedFormula.lean`. -/

namespace C15
open SharedFormula
open FormulaTokens (Tok letter colLetters dec dollar renderTok render shiftTok shift move identChar
  cellLike firstChar endsRun notCallOrSheet inSheet tokWF wf WF)

/-- **ref_shift**: offsetting a single rendered reference moves exactly its relative components
    (the `$` components stay), provided the reference and its image lie in the sheet. -/
theorem ref_shift (ca ra : Bool) (c r : Nat) (d : Int × Int) (hc : c < 16384) (hr : r < 1048576)
    (hin : inSheet ((r : Int) + (if ra then 0 else d.1)) ((c : Int) + (if ca then 0 else d.2)) = true) :
    offsetCellRef (renderTok (.ref ca c ra r)) d
      = some (renderTok (.ref ca (if ca then c else ((c : Int) + d.2).toNat) ra
                                  (if ra then r else ((r : Int) + d.1).toNat))) :=
  offsetCellRef_ref ca ra c r d hc hr hin

/-- the tokenizer on `render toks`, for any sufficient fuel -/
theorem translate_go (toks : List Tok) (d : Int × Int) (h : WF toks d) :
    ∀ f, (render toks).length ≤ f → replaceGo d f (render toks) = .ok (render (shift toks d)) := by
  induction toks with
  | nil => intro f _; exact replaceGo_nil d f
  | cons t ts ih =>
    unfold WF at h ih
    simp only [wf, Bool.and_eq_true] at h
    obtain ⟨ht, hts⟩ := h
    have ih := ih hts
    have hnext : ∀ x, (render ts).head? = some x → endsRun (firstChar ts) = true → isNameChar x = false := by
      intro x hx he
      unfold firstChar at he; rw [hx] at he
      simpa [endsRun, identChar_eq] using he
    intro f hf
    cases t with
    | punct c =>
      simp only [tokWF, Bool.and_eq_true, Bool.not_eq_true', bne_iff_ne, ne_eq] at ht
      obtain ⟨⟨h1, h2⟩, h3⟩ := ht
      simp only [render, renderTok, List.length_append, List.length_cons, List.length_nil] at hf ⊢
      obtain ⟨f', rfl⟩ : ∃ f', f = f' + 1 := ⟨f - 1, by omega⟩
      rw [List.singleton_append, replaceGo_punct d f' c _ (by rw [← identChar_eq]; exact h1) h2 h3, ih f' (by omega)]
      rfl
    | str s =>
      simp only [tokWF, Bool.not_eq_true'] at ht
      have hs : ∀ x ∈ s, x ≠ '"' := by
        intro x hx e; subst e
        have : s.contains '"' = true := List.contains_iff_mem.mpr hx
        rw [ht] at this; cases this
      simp only [render, renderTok, List.length_append, List.length_cons, List.length_nil] at hf ⊢
      obtain ⟨f', rfl⟩ : ∃ f', f = f' + 1 := ⟨f - 1, by omega⟩
      have e : ('"' :: s ++ ['"']) ++ render ts = '"' :: (s ++ '"' :: render ts) := by simp
      rw [e, replaceGo_quoted d f' '"' s _ (Or.inl rfl) hs, ih f' (by omega)]
      simp [pre, shift, render, renderTok, shiftTok]
    | sheet n q =>
      cases q with
      | true =>
        simp only [tokWF, Bool.not_eq_true'] at ht
        have hs : ∀ x ∈ n, x ≠ '\'' := by
          intro x hx e; subst e
          have : n.contains '\'' = true := List.contains_iff_mem.mpr hx
          rw [ht] at this; cases this
        simp only [render, renderTok, List.length_append, List.length_cons, List.length_nil] at hf ⊢
        obtain ⟨f', rfl⟩ : ∃ f', f = f' + 2 := ⟨f - 2, by omega⟩
        have e : ('\'' :: n ++ ['\'', '!']) ++ render ts = '\'' :: (n ++ '\'' :: ('!' :: render ts)) := by simp
        rw [e, replaceGo_quoted d (f' + 1) '\'' n _ (Or.inr rfl) hs,
          replaceGo_punct d f' '!' _ (by decide) (by decide) (by decide), ih f' (by omega)]
        simp [pre, shift, render, renderTok, shiftTok]
      | false =>
        simp only [tokWF, Bool.and_eq_true, Bool.not_eq_true', List.all_eq_true] at ht
        obtain ⟨hne, hall⟩ := ht
        have hne' : n ≠ [] := by intro e; subst e; simp at hne
        simp only [render, renderTok, List.length_append, List.length_cons, List.length_nil] at hf ⊢
        have hlen : 1 ≤ n.length := by
          cases n with
          | nil => exact absurd rfl hne'
          | cons _ _ => simp
        obtain ⟨f', rfl⟩ : ∃ f', f = f' + 2 := ⟨f - 2, by omega⟩
        rw [List.append_assoc, replaceGo_run d (f' + 1) n _ hne' (fun x hx => by rw [← identChar_eq]; exact hall x hx)
          (by intro x hx; simp at hx; subst hx; decide)]
        rw [runOut_call d n _ rfl, List.singleton_append, replaceGo_punct d f' '!' _ (by decide) (by decide) (by decide), ih f' (by omega)]
        simp [pre, shift, render, renderTok, shiftTok]
    | ident s =>
      simp only [tokWF, Bool.and_eq_true, Bool.not_eq_true', List.all_eq_true, Bool.or_eq_true] at ht
      obtain ⟨⟨⟨hne, hall⟩, hend⟩, hcell⟩ := ht
      have hne' : s ≠ [] := by intro e; subst e; simp at hne
      have hlen : 1 ≤ s.length := by
        cases s with
        | nil => exact absurd rfl hne'
        | cons _ _ => simp
      simp only [render, renderTok, List.length_append] at hf ⊢
      obtain ⟨f', rfl⟩ : ∃ f', f = f' + 1 := ⟨f - 1, by omega⟩
      rw [replaceGo_run d f' s _ hne' (fun x hx => by rw [← identChar_eq]; exact hall x hx)
        (fun x hx => hnext x hx hend), ih f' (by omega)]
      have hout : runOut d s (render ts) = s := by
        rcases hcell with hc | hc
        · exact runOut_none d s _ (offsetCellRef_none_of_not_cellLike s d hc)
        · apply runOut_call
          rw [nextIsCallOrSheet_eq]; unfold firstChar at hc; rw [hc]; rfl
      rw [hout]
      simp [pre, shift, render, renderTok, shiftTok]
    | num s =>
      simp only [tokWF, Bool.and_eq_true, Bool.not_eq_true', List.all_eq_true] at ht
      obtain ⟨⟨hne, hall⟩, hend⟩ := ht
      have hne' : s ≠ [] := by intro e; subst e; simp at hne
      have hlen : 1 ≤ s.length := by
        cases s with
        | nil => exact absurd rfl hne'
        | cons _ _ => simp
      have hname : ∀ x ∈ s, isNameChar x = true := by
        intro x hx
        have := hall x hx
        simp only [Bool.or_eq_true, decide_eq_true_eq] at this
        rcases this with h | h
        · rw [isNameChar_iff]; have := (isDigit_iff x).mp h; omega
        · subst h; decide
      simp only [render, renderTok, List.length_append] at hf ⊢
      obtain ⟨f', rfl⟩ : ∃ f', f = f' + 1 := ⟨f - 1, by omega⟩
      rw [replaceGo_run d f' s _ hne' hname (fun x hx => hnext x hx hend), ih f' (by omega),
        runOut_none d s _ (offsetCellRef_num s d hall)]
      simp [pre, shift, render, renderTok, shiftTok]
    | ref ca c ra r =>
      simp only [tokWF, Bool.and_eq_true, decide_eq_true_eq] at ht
      obtain ⟨⟨⟨⟨hc, hr⟩, hin⟩, hend⟩, hcall⟩ := ht
      unfold FormulaTokens.MAX_COLUMNS at hc
      unfold FormulaTokens.MAX_ROWS at hr
      obtain ⟨hname, hne'⟩ := render_ref_nameChars ca ra c r hc
      have hlen : 1 ≤ (renderTok (.ref ca c ra r)).length := by
        cases h : renderTok (.ref ca c ra r) with
        | nil => exact absurd h hne'
        | cons _ _ => simp
      simp only [render, List.length_append] at hf ⊢
      obtain ⟨f', rfl⟩ : ∃ f', f = f' + 1 := ⟨f - 1, by omega⟩
      have hnc : nextIsCallOrSheet (render ts) = false := by
        rw [nextIsCallOrSheet_eq]; unfold firstChar at hcall; rw [hcall]; rfl
      rw [replaceGo_run d f' _ _ hne' hname (fun x hx => hnext x hx hend), ih f' (by omega),
        runOut_some d _ _ _ (offsetCellRef_ref ca ra c r d hc hr hin) hnc]
      simp [pre, shift, render]

/-- **translate_correct** (after D13): on every well-formed (unambiguously rendered) token list
    the implementation's rewriting is the translation of the formula: relative components of
    references move by the offset, absolute components, strings, sheet names, function and
    defined names, numbers and punctuation are reproduced unchanged. -/
theorem translate_correct (toks : List Tok) (d : Int × Int) (h : WF toks d) :
    replaceCellNames (render toks) d = .ok (render (shift toks d)) :=
  translate_go toks d h _ (Nat.le_refl _)

end C15
