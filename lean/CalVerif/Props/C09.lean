import CalVerif.Lemmas.De
import CalVerif.Model.DeData
/-! # C09 — serde deserialization maps rows to records faithfully
    Property theorems only (helper lemmas live in `Lemmas/De.lean`; the model in `Model/De.lean`).
    `WF r`: `r` satisfies the rectangle invariant of C05 and its coordinates are `u32` values.
    Every theorem holds for every `std : Std` (the unmodelled `f64::to_string` / `parse::<f64|f32>`). -/
namespace De
open Range (Rng)

/-! ## one item per row after the header row, in order; `size_hint` exact -/

/-- The results of the first `k` calls to `next`: the `j`-th call deserializes row `j` after the
    header row (if there is one) at its absolute position `(start.row + hdr + j, start.col)`, and
    returns `None` once the rows are used up. -/
theorem items_spec {std : Std} {cfg : Headers} {r : Rng Data} {st : DeState} (hw : WF r)
    (h : new std cfg r = .ok st) (sh : Shape) (k : Nat) :
    items sh k st = (List.range k).map fun j =>
      ((Range.rows r)[j + hdrRows cfg r]?).map fun row =>
        rowItem st.colIdx st.headers row (r.sr + hdrRows cfg r + j, r.sc) sh := by
  obtain ⟨hrows, hcur, hb⟩ := new_state hw h
  rw [items_eq sh k st hb]
  apply List.map_congr_left
  intro j _
  unfold itemAt
  have e : st.rows[j]? = (Range.rows r)[j + hdrRows cfg r]? := by
    rw [hrows, List.getElem?_drop, Nat.add_comm]
  rw [e]
  cases hj : (Range.rows r)[j + hdrRows cfg r]? with
  | none => rfl
  | some row =>
    have hne : st.rows ≠ [] := by
      intro hn; rw [hn] at e; rw [hj] at e; simp at e
    rw [hcur hne]

/-- number of items = height − [header row consumed]: the `j`-th call returns an item iff `j` is below it -/
theorem items_count {std : Std} {cfg : Headers} {r : Rng Data} {st : DeState} (hw : WF r)
    (h : new std cfg r = .ok st) (sh : Shape) (k j : Nat) (hj : j < k) :
    (j < r.height - hdrRows cfg r → ∃ it, (items sh k st)[j]? = some (some it)) ∧
    (r.height - hdrRows cfg r ≤ j → (items sh k st)[j]? = some none) := by
  rw [items_spec hw h sh k]
  simp only [List.getElem?_map, List.getElem?_range hj, Option.map_some]
  have hlen := rows_length hw.inv
  constructor
  · intro hlt
    have : j + hdrRows cfg r < (Range.rows r).length := by rw [hlen]; omega
    rw [List.getElem?_eq_getElem this]
    exact ⟨_, rfl⟩
  · intro hge
    have hd : hdrRows cfg r ≤ r.height := by
      unfold hdrRows; cases cfg <;> simp <;> omega
    have : (Range.rows r).length ≤ j + hdrRows cfg r := by rw [hlen]; omega
    rw [List.getElem?_eq_none this]; rfl

/-- After `k` calls to `next` the hint is `(n − k, Some(n − k))` with `n = height − [header row]`
    (truncated subtraction: it never underflows, also for empty and header-only ranges). -/
theorem size_hint_exact {std : Std} {cfg : Headers} {r : Rng Data} {st : DeState} (hw : WF r)
    (h : new std cfg r = .ok st) (sh : Shape) (k : Nat) :
    sizeHint (nextN sh k st) =
      (r.height - hdrRows cfg r - k, some (r.height - hdrRows cfg r - k)) := by
  obtain ⟨hrows, _, _⟩ := new_state hw h
  unfold sizeHint
  rw [nextN_rows, hrows, List.length_drop, List.length_drop, rows_length hw.inv]

/-! ## skipping: `nth` (and with it `skip`, `step_by`, which std implements through `nth`) -/

/-- `nth n` is `n` calls to `next` whose results are dropped, followed by one more `next` -/
theorem nth_eq_iterate_next (st : DeState) (sh : Shape) (n : Nat) :
    nth st sh n = next (nextN sh n st) sh := nth_eq sh n st

/-- After `k` calls to `next`, `nth n` yields the item of row `k + n` after the header row, at that row's own
    absolute position `(start.row + hdr + k + n, start.col)` (skipped rows move the position too), or `None`
    past the end; afterwards `k + n + 1` rows are consumed. -/
theorem nth_spec {std : Std} {cfg : Headers} {r : Rng Data} {st : DeState} (hw : WF r)
    (h : new std cfg r = .ok st) (sh : Shape) (k n : Nat) :
    (nth (nextN sh k st) sh n).1 =
      ((Range.rows r)[k + n + hdrRows cfg r]?).map (fun row =>
        rowItem st.colIdx st.headers row (r.sr + hdrRows cfg r + (k + n), r.sc) sh) ∧
    (nth (nextN sh k st) sh n).2 = nextN sh (k + n + 1) st := by
  have hcomp : ∀ a b (s : DeState), nextN sh a (nextN sh b s) = nextN sh (b + a) s := by
    intro a b
    induction b with
    | zero => intro s; simp [nextN]
    | succ b ih => intro s; rw [nextN, ih, Nat.add_right_comm]; rfl
  rw [nth_eq, hcomp]
  constructor
  · have := items_getElem? sh (k + n + 1) st (k + n) (by omega)
    rw [items_spec hw h sh (k + n + 1)] at this
    simp only [List.getElem?_map, List.getElem?_range (Nat.lt_succ_self _), Option.map_some] at this
    injection this with this
    exact this.symm
  · exact (nextN_succ' sh (k + n) st).symm

/-! ## without headers: a record is the row's cells by position -/

/-- `Headers::None`: whatever the record type asks for (`seq` or `map`: there are no headers, so a map request
    falls back to a sequence), row `j` is handed over as its `width` cells in column order, the cell at
    relative column `i` with the absolute position `(start.row + j, start.col + i)`. -/
theorem seq_by_position {std : Std} {r : Rng Data} {st : DeState} (hw : WF r)
    (h : new std .none r = .ok st) (sh : Shape) (j : Nat) (row : List Data)
    (hr : (Range.rows r)[j]? = some row) :
    rowItem st.colIdx st.headers row (r.sr + j, r.sc) sh =
      .seq r.width (row.zipIdx.map fun p => .ok (p.1, (r.sr + j, r.sc + p.2))) := by
  rw [new_none_eq] at h; injection h with h; subst h
  have hl := row_length hw.inv j row hr
  have h0 : r.inner.length ≠ 0 := by
    intro hz; rw [rows_nil_of_empty hz] at hr; simp at hr
  have hwd := width_eq h0
  have hec := hw.ec
  have ho := hw.inv.ord h0
  have hev : seqEvents (List.range r.width) row (r.sr + j, r.sc) =
      row.zipIdx.map fun p => .ok (p.1, (r.sr + j, r.sc + p.2)) := by
    rw [← hl, seqEvents_range]
    apply List.map_congr_left
    intro p hp
    obtain ⟨d, i⟩ := p
    have hm := List.mem_zipIdx hp
    rw [cellPos_eq _ _ (by simp only; omega)]
  cases sh <;> simp [rowItem, hev]

/-! ## with headers: fields are bound by header string, empty cells are absent -/

/-- `Headers::All` on a range with a header row `hd` (`new` succeeded, so `hd` has no error cell): the
    headers are the texts of the header cells, and a record type asking for a map/struct is handed, for
    row `j` after the header row, exactly the NON-EMPTY cells in column order, each keyed by the header
    string of its column and carrying its absolute position. -/
theorem map_by_header {std : Std} {r : Rng Data} {st : DeState} (hw : WF r)
    (h : new std .all r = .ok st) (hd : List Data) (hhd : (Range.rows r)[0]? = some hd)
    (j : Nat) (row : List Data) (hr : (Range.rows r)[j + 1]? = some row) :
    st.headers = some (hd.map (textOf std)) ∧ (∀ d ∈ hd, d.isError = false) ∧
    rowItem st.colIdx st.headers row (r.sr + 1 + j, r.sc) .map =
      .map (row.zipIdx.filterMap fun p =>
        if p.1.isEmpty then none
        else some (.ok ((hd.map (textOf std)).getD p.2 [], p.1, (r.sr + 1 + j, r.sc + p.2)))) := by
  cases hrows : Range.rows r with
  | nil => rw [hrows] at hhd; simp at hhd
  | cons hd' rest =>
    have : hd' = hd := by rw [hrows] at hhd; simpa using hhd
    subst this
    have h0 := nonempty_of_rows hrows
    rw [new_all_eq std h0 hrows] at h
    cases hh : headerRow std hd' (r.sr, r.sc) with
    | err e => simp [hh] at h
    | panic s => simp [hh] at h
    | ok hs =>
      simp only [hh] at h; injection h with h; subst h
      obtain ⟨hhs, hne⟩ := headerRow_eq_ok hh
      subst hhs
      refine ⟨rfl, hne, ?_⟩
      have hl := row_length hw.inv (j + 1) row hr
      have hl0 := row_length hw.inv 0 hd' hhd
      have hwd := width_eq h0
      have hec := hw.ec
      have ho := hw.inv.ord h0
      simp only [rowItem]
      congr 1
      rw [hl0, ← hl, mapEvents_range _ _ _ (by simp [hl0, hl])]
      apply filterMap_congr_mem
      intro p hp
      obtain ⟨d, i⟩ := p
      have hm := List.mem_zipIdx hp
      rw [cellPos_eq _ _ (by simp only; omega)]

/-- Fields are bound by header name independently of column order: permuting the columns of the header
    row and of a data row in the same way (`perm` a permutation of the column indices) permutes the
    (header, cell) pairs handed to a map/struct visitor and changes nothing else — every non-empty cell
    still arrives under the header of its own column. -/
theorem map_column_order_independent (hs : List Str) (row : List Data) (hl : hs.length = row.length)
    (perm : List Nat) (hp : perm.Perm (List.range row.length)) (pos pos' : Pos) :
    ((mapEvents (perm.map fun i => hs.getD i []) (List.range (perm.map fun i => row.getD i .empty).length)
        (perm.map fun i => row.getD i .empty) pos').filterMap evKV).Perm
      ((mapEvents hs (List.range row.length) row pos).filterMap evKV) := by
  rw [mapEvents_kv _ _ _ (by simp), mapEvents_kv _ _ _ hl]
  unfold kvPairs
  apply List.Perm.filter
  rw [List.zip_map', zip_eq_range_map hs row hl]
  exact hp.map _

/-! ## selecting headers -/

/-- `Headers::Custom(names)`: the selected column of the `k`-th requested name is the FIRST column whose
    trimmed header equals the trimmed name; columns come in the order of the request. -/
theorem custom_headers {hs names : List Str} {idx : List Nat} (hc : customIdx hs names = .ok idx) :
    idx.length = names.length ∧
    ∀ (k : Nat) (n : Str), names[k]? = some n →
      ∃ i, idx[k]? = some i ∧ ∃ hi : i < hs.length, trim hs[i] = trim n ∧
        ∀ (i' : Nat) (hi' : i' < i), trim (hs[i']'(by omega)) ≠ trim n := by
  unfold customIdx at hc
  refine ⟨mapMD_ok_length _ _ _ hc, ?_⟩
  intro k n hk
  obtain ⟨i, hik, hf⟩ := mapMD_ok_getElem _ _ _ hc k n hk
  refine ⟨i, hik, ?_⟩
  cases hfi : hs.findIdx? (fun h => trim h == trim n) with
  | none => simp [hfi] at hf
  | some i0 =>
    simp only [hfi] at hf; injection hf with hf; subst hf
    obtain ⟨hi, hp, hmin⟩ := List.findIdx?_eq_some_iff_getElem.mp hfi
    refine ⟨hi, by simpa using hp, ?_⟩
    intro i' hi'
    have := hmin i' hi'
    simpa using this

/-- every requested name that occurs (after trimming) among the headers is found -/
theorem custom_headers_total {hs names : List Str}
    (hall : ∀ n ∈ names, ∃ h ∈ hs, trim h = trim n) : ∃ idx, customIdx hs names = .ok idx := by
  unfold customIdx
  refine ⟨names.map fun n => (hs.findIdx? (fun h => trim h == trim n)).getD 0, ?_⟩
  apply mapMD_ok_of_forall
  intro n hn
  obtain ⟨h, hh, ht⟩ := hall n hn
  cases hfi : hs.findIdx? (fun h => trim h == trim n) with
  | none =>
    have := List.findIdx?_eq_none_iff.mp hfi h hh
    simp [ht] at this
  | some i => rfl

/-- `HeaderNotFound` carries the (trimmed) FIRST requested name that matches no header -/
theorem header_not_found {hs : List Str} (pre : List Str) (n : Str) (post : List Str)
    (hpre : ∀ p ∈ pre, ∃ h ∈ hs, trim h = trim p) (hn : ∀ h ∈ hs, trim h ≠ trim n) :
    customIdx hs (pre ++ n :: post) = .err (.headerNotFound (trim n)) := by
  unfold customIdx
  apply mapMD_first_err _ (fun m => (hs.findIdx? (fun h => trim h == trim m)).getD 0)
  · intro p hp
    obtain ⟨h, hh, ht⟩ := hpre p hp
    cases hfi : hs.findIdx? (fun h => trim h == trim p) with
    | none =>
      have := List.findIdx?_eq_none_iff.mp hfi h hh
      simp [ht] at this
    | some i => rfl
  · have : hs.findIdx? (fun h => trim h == trim n) = none := by
      apply List.findIdx?_eq_none_iff.mpr
      intro h hh
      simpa using hn h hh
    simp [this]

/-- Selecting any sub-list of the requested names in any order (with repetitions) selects the
    corresponding columns in that order: the column of a name does not depend on the other names. -/
theorem column_permutation_independent {hs names : List Str} {idx : List Nat}
    (hc : customIdx hs names = .ok idx) (sel : List Nat) (hsel : ∀ s ∈ sel, s < names.length) :
    customIdx hs (sel.map fun s => names.getD s []) = .ok (sel.map fun s => idx.getD s 0) := by
  have hlen := (custom_headers hc).1
  unfold customIdx at hc ⊢
  apply mapMD_ok_of_pointwise
  · simp
  · intro k a hk
    rw [List.getElem?_map] at hk
    cases hs' : sel[k]? with
    | none => simp [hs'] at hk
    | some s =>
      simp only [hs', Option.map_some] at hk
      injection hk with hk
      have hslt : s < names.length := hsel s (List.mem_of_getElem? hs')
      have hn : names[s]? = some a := by
        rw [← hk]; simp [List.getD, List.getElem?_eq_getElem hslt]
      obtain ⟨b, hb, hf⟩ := mapMD_ok_getElem _ _ _ hc s a hn
      refine ⟨b, ?_, hf⟩
      simp [List.getElem?_map, hs', List.getD, hb]

/-- … and the events handed to the record follow: the cells of the selected columns, in the selected order -/
theorem column_permutation_events (idx : List Nat) (row : List Data) (pos : Pos) (sel : List Nat)
    (hsel : ∀ s ∈ sel, s < idx.length) :
    seqEvents (sel.map fun s => idx.getD s 0) row pos =
      sel.map fun s => (seqEvents idx row pos).getD s (.panic "") := by
  unfold seqEvents
  rw [List.map_map]
  apply List.map_congr_left
  intro s hs
  have := hsel s hs
  simp [List.getD, List.getElem?_map, List.getElem?_eq_getElem this]

/-- `new` with custom headers on a range whose header row `hd` has no error cell: the outcome is that
    of the column selection over the header texts (so `custom_headers`, `header_not_found` and
    `column_permutation_independent` describe `RangeDeserializer::new`). -/
theorem new_custom_spec (std : Std) (names : List Str) {r : Rng Data} {hd : List Data}
    {rest : List (List Data)} (hr : Range.rows r = hd :: rest) (hne : ∀ d ∈ hd, d.isError = false) :
    new std (.custom names) r =
      (match customIdx (hd.map (textOf std)) names with
       | .ok idx => .ok ⟨idx, some (hd.map (textOf std)), rest, nextRowPos (r.sr, r.sc)⟩
       | .err e => .err e
       | .panic s => .panic s) := by
  rw [new_custom_eq std names (nonempty_of_rows hr) hr, headerRow_ok std hd _ hne]
  simp only
  cases customIdx (hd.map (textOf std)) names <;> rfl

/-! ## error cells -/

/-- whatever the visitor asks an error cell for, it gets `CellError` with the cell's kind and the position
    the cell deserializer was built with (`option` / `newtype_struct` re-offer the same deserializer, the
    failure comes with the next request) -/
theorem visitCell_error (std : Std) (kind : Nat) (pos : Pos) (t : Target) :
    visitCell std (.error kind) pos t = .err (.cellError kind pos) := by
  cases t <;> (try rename_i n; cases n) <;> rfl

theorem convert_error (std : Std) (kind : Nat) (pos : Pos) (t : Target) (h1 : t ≠ .option)
    (h2 : t ≠ .newtypeStruct) : convert std (.error kind) pos t = .err (.cellError kind pos) := by
  cases t <;> (try rename_i n; cases n) <;> first | rfl | contradiction

/-- An `Error` cell at relative column `i` of the `j`-th row after the header row (absolute row
    `ρ = start.row + hdr + j`), selected as the `c`-th column: the cell deserializer handed to the record's
    visitor (sequence or map access) carries the absolute position `(ρ, start.col + i)`, and every request
    on it fails with `CellError{kind, pos = (ρ, start.col + i)}`. -/
theorem error_cell_position {std : Std} {cfg : Headers} {r : Rng Data} {st : DeState} (hw : WF r)
    (_h : new std cfg r = .ok st) (j : Nat) (row : List Data)
    (hr : (Range.rows r)[j + hdrRows cfg r]? = some row) (i kind : Nat)
    (hi : row[i]? = some (.error kind)) (c : Nat) (hc : st.colIdx[c]? = some i) (t : Target) :
    (seqEvents st.colIdx row (r.sr + hdrRows cfg r + j, r.sc))[c]? =
        some (.ok (.error kind, (r.sr + hdrRows cfg r + j, r.sc + i))) ∧
    (∀ hs : List Str, i < hs.length →
        .ok (hs.getD i [], .error kind, (r.sr + hdrRows cfg r + j, r.sc + i)) ∈
          mapEvents hs st.colIdx row (r.sr + hdrRows cfg r + j, r.sc)) ∧
    visitCell std (.error kind) (r.sr + hdrRows cfg r + j, r.sc + i) t =
        .err (.cellError kind (r.sr + hdrRows cfg r + j, r.sc + i)) := by
  have hl := row_length hw.inv _ row hr
  have h0 : r.inner.length ≠ 0 := by
    intro hz; rw [rows_nil_of_empty hz] at hr; simp at hr
  have hwd := width_eq h0
  have hec := hw.ec
  have ho := hw.inv.ord h0
  have hil : i < row.length := (List.getElem?_eq_some_iff.mp hi).1
  have hp : cellPos (r.sr + hdrRows cfg r + j, r.sc) i = (r.sr + hdrRows cfg r + j, r.sc + i) :=
    cellPos_eq _ _ (by simp only; omega)
  refine ⟨?_, ?_, visitCell_error _ _ _ _⟩
  · simp [seqEvents, List.getElem?_map, hc, hi, hp]
  · intro hs hlt
    unfold mapEvents
    apply List.mem_filterMap.mpr
    refine ⟨i, List.mem_of_getElem? hc, ?_⟩
    have hg : hs.getD i [] = hs[i] := by simp [List.getD, List.getElem?_eq_getElem hlt]
    have hh : hs[i]? = some hs[i] := List.getElem?_eq_getElem hlt
    rw [hg, hi]
    simp only [Data.isEmpty, hh, hp]
    rfl

/-- … so a record visitor that got through the cells before it fails with exactly that error -/
theorem record_fails_at_error (std : Std) (sched : List Target) (pre post : List (DRes (Data × Pos)))
    (kind : Nat) (pos : Pos) (hpre : (recordSeq std sched 0 pre).2 = none) :
    (recordSeq std sched 0 (pre ++ .ok (.error kind, pos) :: post)).2 = some (.err (.cellError kind pos)) := by
  rw [recordSeq_append_fail std sched pre 0 _ hpre]
  simp [recordSeq, visitCell_error]

/-! ## rows are independent -/

/-- The result for row `j` depends only on row `j`, the first row (headers), the width and the start
    corner: two ranges agreeing on these give the same `j`-th item, whatever their other rows hold
    (in particular an error cell in another row does not affect it). -/
theorem rows_independent {std : Std} {cfg : Headers} {r1 r2 : Rng Data} {st1 st2 : DeState}
    (hw1 : WF r1) (hw2 : WF r2) (h1 : new std cfg r1 = .ok st1) (h2 : new std cfg r2 = .ok st2)
    (hhd : (Range.rows r1)[0]? = (Range.rows r2)[0]?) (hwd : r1.width = r2.width)
    (hst : r1.start = r2.start) (hsr : r1.sr = r2.sr) (hsc : r1.sc = r2.sc)
    (hh : hdrRows cfg r1 = hdrRows cfg r2) (j : Nat)
    (hrow : (Range.rows r1)[j + hdrRows cfg r1]? = (Range.rows r2)[j + hdrRows cfg r1]?)
    (sh : Shape) (k1 k2 : Nat) (hj1 : j < k1) (hj2 : j < k2) :
    (items sh k1 st1)[j]? = (items sh k2 st2)[j]? := by
  obtain ⟨hc, hhs⟩ := new_static_congr h1 h2 hhd hwd hst
  rw [items_spec hw1 h1, items_spec hw2 h2]
  simp only [List.getElem?_map, List.getElem?_range hj1, List.getElem?_range hj2, Option.map_some]
  rw [← hh, ← hrow, hc, hhs, hsr, hsc]

/-! ## the conversion table -/

/-- `Empty` as `None` / `false` / `""` / unit / no bytes -/
theorem convert_empty (std : Std) (pos : Pos) :
    convert std .empty pos .option = .ok .none ∧
    convert std .empty pos .bool = .ok (.bool false) ∧
    convert std .empty pos .str = .ok (.str []) ∧
    convert std .empty pos .string = .ok (.str []) ∧
    convert std .empty pos .unit = .ok .unit ∧
    convert std .empty pos .any = .ok .unit ∧
    convert std .empty pos .bytes = .ok (.bytes []) := ⟨rfl, rfl, rfl, rfl, rfl, rfl, rfl⟩

/-- a non-empty cell is `Some` -/
theorem convert_option_some (std : Std) (d : Data) (pos : Pos) (h : d ≠ .empty) :
    convert std d pos .option = .ok .some := by
  cases d <;> first | rfl | contradiction

/-- numbers are not accepted for `Empty`, booleans, dates and durations -/
theorem convert_num_rejects (std : Std) (t : NumTy) (pos : Pos) (d : Data)
    (h : d = .empty ∨ (∃ b, d = .bool b) ∨ (∃ b, d = .dateTime b) ∨ (∃ s, d = .dateTimeIso s) ∨ (∃ s, d = .durationIso s)) :
    convert std d pos (.num t) = .err (.custom "num") := by
  rcases h with h | ⟨b, h⟩ | ⟨b, h⟩ | ⟨s, h⟩ | ⟨s, h⟩ <;> subst h <;> rfl

/-- boolean strings: exactly the six spellings -/
theorem convert_bool_string (std : Std) (s : Str) (pos : Pos) :
    convert std (.string s) pos .bool =
      if s = "TRUE".toList ∨ s = "true".toList ∨ s = "True".toList then .ok (.bool true)
      else if s = "FALSE".toList ∨ s = "false".toList ∨ s = "False".toList then .ok (.bool false)
      else .err (.custom "bool") := rfl

/-- numbers as booleans: `≠ 0` -/
theorem convert_bool_num (std : Std) (pos : Pos) (v : Int) (b : Nat) :
    convert std (.int v) pos .bool = .ok (.bool (v != 0)) ∧
    convert std (.float b) pos .bool = .ok (.bool (b % 2 ^ 63 != 0)) := ⟨rfl, rfl⟩

/-- integer cells cast to an integer type that can hold them are unchanged -/
theorem convert_int_in_range (std : Std) (t : NumTy) (ht : t.isFloat = false) (v : Int) (pos : Pos)
    (hlo : t.lo ≤ v) (hhi : v ≤ t.hi) : convert std (.int v) pos (.num t) = .ok (.int t v) := by
  have hw : wrapInt t v = v := by
    cases t <;> simp [NumTy.isFloat] at ht <;>
      simp [NumTy.lo, NumTy.hi, NumTy.signed, NumTy.bits] at hlo hhi <;>
      simp [wrapInt, NumTy.signed, NumTy.bits] <;> omega
  cases t <;> simp [NumTy.isFloat] at ht <;> simp [convert, convNum, hw]

/-- numeric strings: the decimal text of an integer (as `i64::to_string` writes it) converts back to that
    integer for every integer target type that can hold it -/
theorem convert_numeric_string (std : Std) (t : NumTy) (ht : t.isFloat = false) (v : Int) (pos : Pos)
    (hlo : t.lo ≤ v) (hhi : v ≤ t.hi) :
    convert std (.string (intToStr v)) pos (.num t) = .ok (.int t v) := by
  have hs : v < 0 → t.signed = true := by
    intro hv
    cases t <;> simp [NumTy.isFloat] at ht <;> simp [NumTy.lo, NumTy.signed] at hlo ⊢ <;> omega
  have hp := parseInt_intToStr t.signed t.lo t.hi v hlo hhi hs
  cases t <;> simp [NumTy.isFloat] at ht <;> simp [convert, convNum, hp]

/-- a cast always lands in the target type's range (floats saturate, integers wrap) -/
theorem convert_num_in_range (t : NumTy) (ht : t.isFloat = false) (b : Nat) (v : Int) :
    (t.lo ≤ f64ToInt t b ∧ f64ToInt t b ≤ t.hi) ∧ (t.lo ≤ wrapInt t v ∧ wrapInt t v ≤ t.hi) := by
  constructor
  · have hle : t.lo ≤ t.hi := by
      cases t <;> simp [NumTy.lo, NumTy.hi, NumTy.signed, NumTy.bits]
    unfold f64ToInt clampInt
    simp only
    split
    · cases t <;> simp [NumTy.isFloat] at ht <;> simp [NumTy.lo, NumTy.hi, NumTy.signed, NumTy.bits]
    · split
      · omega
      · split <;> omega
  · cases t <;> simp [NumTy.isFloat] at ht <;>
      simp [wrapInt, NumTy.lo, NumTy.hi, NumTy.signed, NumTy.bits] <;> omega

/-- a cell that is not an error never produces `CellError`, and an error cell reports its own kind and
    the position its deserializer was built with -/
theorem convert_no_spurious_cell_error (std : Std) (d : Data) (pos : Pos) (t : Target) (kind : Nat) (p : Pos)
    (h : convert std d pos t = .err (.cellError kind p)) : d = .error kind ∧ p = pos := by
  have hAny : ∀ {d}, convAny d pos = .err (.cellError kind p) → d = .error kind ∧ p = pos := by
    intro d h; cases d <;> simp [convAny] at h ⊢ <;> exact ⟨h.1, h.2.symm⟩
  have hStr : ∀ {d}, (strOf std d pos).map Val.str = .err (.cellError kind p) → d = .error kind ∧ p = pos := by
    intro d h; cases d <;> simp [strOf, DRes.map] at h ⊢ <;> exact ⟨h.1, h.2.symm⟩
  have hBytes : ∀ {d}, convBytes d pos = .err (.cellError kind p) → d = .error kind ∧ p = pos := by
    intro d h; cases d <;> simp [convBytes] at h ⊢ <;> exact ⟨h.1, h.2.symm⟩
  have hBool : ∀ {d}, convBool d pos = .err (.cellError kind p) → d = .error kind ∧ p = pos := by
    intro d h
    cases d with
    | string s => simp only [convBool] at h; split at h <;> (try split at h) <;> simp at h
    | error k => simp [convBool] at h ⊢; exact ⟨h.1, h.2.symm⟩
    | _ => simp [convBool] at h
  have hChar : ∀ {d}, convChar d pos = .err (.cellError kind p) → d = .error kind ∧ p = pos := by
    intro d h
    cases d with
    | string s =>
      cases s with
      | nil => simp [convChar] at h
      | cons c cs => cases cs <;> simp only [convChar] at h <;> (try split at h) <;> simp at h
    | error k => simp [convChar] at h ⊢; exact ⟨h.1, h.2.symm⟩
    | _ => simp [convChar] at h
  have hUnit : ∀ {d}, convUnit d pos = .err (.cellError kind p) → d = .error kind ∧ p = pos := by
    intro d h; cases d <;> simp [convUnit] at h ⊢ <;> exact ⟨h.1, h.2.symm⟩
  have hEnum : ∀ {d}, convEnum d pos = .err (.cellError kind p) → d = .error kind ∧ p = pos := by
    intro d h; cases d <;> simp [convEnum] at h ⊢ <;> exact ⟨h.1, h.2.symm⟩
  have hNum : ∀ {d n}, convNum std n d pos = .err (.cellError kind p) → d = .error kind ∧ p = pos := by
    intro d n h
    cases d with
    | string s => cases n <;> simp only [convNum] at h <;> split at h <;> simp at h
    | error k => simp [convNum] at h ⊢; exact ⟨h.1, h.2.symm⟩
    | float b => cases n <;> simp [convNum] at h
    | int v => cases n <;> simp [convNum] at h
    | _ => simp [convNum] at h
  cases t <;> simp only [convert] at h <;>
    first
    | exact hAny h | exact hStr h | exact hBytes h | exact hBool h | exact hChar h | exact hUnit h
    | exact hEnum h | exact hNum h
    | (unfold convOption at h; split at h <;> simp at h)
    | simp at h

/-- some points of the numeric tables (casts, parsing), evaluated by the kernel -/
theorem convert_points :
    f64ToInt .i8 0xC05F400000000000 = -125 ∧           -- -125.0 as i8
    f64ToInt .i8 0xC060200000000000 = -128 ∧           -- -129.0 as i8 saturates
    f64ToInt .u8 0x406FFCCCCCCCCCCD = 255 ∧            -- 255.9 as u8 truncates
    f64ToInt .u8 0xBFF0000000000000 = 0 ∧              -- -1.0 as u8 saturates
    f64ToInt .i64 0x7FF8000000000000 = 0 ∧             -- NaN as i64
    f64ToInt .i64 0x7FF0000000000000 = 9223372036854775807 ∧ -- +inf as i64
    wrapInt .u8 (-1) = 255 ∧ wrapInt .i8 128 = -128 ∧ wrapInt .u32 4294967296 = 0 ∧
    intToF64 9007199254740993 = 0x4340000000000000 ∧   -- 2^53+1 rounds to even
    intToF32 16777217 = 0x4B800000 ∧
    f64ToF32 0x3FF0000000000001 = 0x3F800000 ∧
    f64ToF32 0x47EFFFFFF0000000 = 0x7F800000 ∧         -- f32::MAX + half ulp rounds to +inf
    f64ToF32 0x36A0000000000000 = 0x00000001 ∧         -- smallest f32 subnormal
    parseInt true (-128) 127 "-128".toList = some (-128) ∧ parseInt true (-128) 127 "128".toList = none ∧
    parseInt false 0 255 "+7".toList = some 7 ∧ parseInt false 0 255 "-0".toList = none ∧
    parseInt true (-128) 127 "+".toList = none ∧ parseInt true (-128) 127 "".toList = none ∧
    parseInt true (-128) 127 " 1".toList = none ∧ parseInt false 0 255 "007".toList = some 7 := by
  decide

/-! ## `Data` as a deserialization target: `impl Deserialize for Data` -/

/-- "`Data` round-trips through serde except …", as a table: deserializing a cell INTO `Data` through its cell
    deserializer gives the cell back for `Int`, `Float`, `String`, `Bool`, `Empty`; a `DateTime` comes back as
    the `Float` of its serial value, `DateTimeIso` / `DurationIso` as `String`; an `Error` cell is
    `Err(CellError{kind, pos})`. -/
theorem data_roundtrip_table (pos : Pos) :
    (∀ v, dataOfCell (.int v) pos = .ok (.int v)) ∧
    (∀ b, dataOfCell (.float b) pos = .ok (.float b)) ∧
    (∀ s, dataOfCell (.string s) pos = .ok (.string s)) ∧
    (∀ b, dataOfCell (.bool b) pos = .ok (.bool b)) ∧
    dataOfCell .empty pos = .ok .empty ∧
    (∀ b, dataOfCell (.dateTime b) pos = .ok (.float b)) ∧
    (∀ s, dataOfCell (.dateTimeIso s) pos = .ok (.string s)) ∧
    (∀ s, dataOfCell (.durationIso s) pos = .ok (.string s)) ∧
    (∀ k, dataOfCell (.error k) pos = .err (.cellError k pos)) :=
  ⟨fun _ => rfl, fun _ => rfl, fun _ => rfl, fun _ => rfl, rfl, fun _ => rfl, fun _ => rfl, fun _ => rfl,
   fun _ => rfl⟩

/-- the same as one equation: the image is `serdeImage`, unless the cell is an error -/
theorem data_roundtrip (d : Data) (pos : Pos) :
    dataOfCell d pos = (match d with
      | .error k => .err (.cellError k pos)
      | d => .ok (serdeImage d)) := by
  cases d <;> rfl

/-- the round trip is the identity exactly on `Int`, `Float`, `String`, `Bool`, `Empty` -/
theorem data_roundtrip_identity_iff (d : Data) (pos : Pos) :
    dataOfCell d pos = .ok d ↔
      (match d with
       | .dateTime _ | .dateTimeIso _ | .durationIso _ | .error _ => False
       | _ => True) := by
  cases d <;> simp [dataOfCell, convAny, dataVisitor, NumTy.signed]

/-- `Option<Data>`: `Empty` is `None`, anything else `Some` of its image, an error cell still fails -/
theorem opt_data_table (d : Data) (pos : Pos) :
    optDataOfCell d pos = (match d with
      | .empty => .ok none
      | .error k => .err (.cellError k pos)
      | d => .ok (some (serdeImage d))) := by
  cases d <;> rfl

/-- the visitor itself: which variant each `visit_*` builds. Unsigned values above `i64::MAX` wrap
    (`value as i64`); `visit_bytes`, `visit_newtype_struct`, `visit_enum` are not implemented. -/
theorem dataVisitor_table :
    (∀ b, dataVisitor (.bool b) = .data (.bool b)) ∧
    (∀ t v, t.signed = true → dataVisitor (.int t v) = .data (.int v)) ∧
    (∀ t v, t.signed = false → 0 ≤ v → v ≤ 9223372036854775807 → dataVisitor (.int t v) = .data (.int v)) ∧
    dataVisitor (.int .u64 18446744073709551615) = .data (.int (-1)) ∧
    dataVisitor (.int .u64 9223372036854775808) = .data (.int (-9223372036854775808)) ∧
    (∀ b, dataVisitor (.f64 b) = .data (.float b)) ∧
    dataVisitor (.f32 0x3FC00000) = .data (.float 0x3FF8000000000000) ∧     -- 1.5f32
    dataVisitor (.f32 0x00000001) = .data (.float 0x36A0000000000000) ∧     -- smallest f32 subnormal
    dataVisitor (.f32 0xFF800000) = .data (.float 0xFFF0000000000000) ∧     -- -inf
    (∀ s, dataVisitor (.str s) = .data (.string s)) ∧
    (∀ c, dataVisitor (.char c) = .data (.string [c])) ∧
    dataVisitor .unit = .data .empty ∧ dataVisitor .none = .data .empty ∧ dataVisitor .some = .again ∧
    (∀ s, dataVisitor (.bytes s) = .invalidType) ∧ dataVisitor .newtype = .invalidType ∧
    (∀ s, dataVisitor (.enum s) = .invalidType) := by
  refine ⟨fun _ => rfl, ?_, ?_, by decide, by decide, fun _ => rfl, by decide, by decide, by decide,
    fun _ => rfl, fun _ => rfl, rfl, rfl, rfl, fun _ => rfl, rfl, fun _ => rfl⟩
  · intro t v h; simp [dataVisitor, h]
  · intro t v h h0 h1
    simp only [dataVisitor, h]
    have : wrapInt .i64 v = v := by simp [wrapInt, NumTy.signed, NumTy.bits]; omega
    simp [this]

/-! ## the `deserialize_as_*` helpers -/

/-- `deserialize_as_i64_or_none` / `deserialize_as_f64_or_none` on a cell that is not an error never fail: they
    return the `as_i64` / `as_f64` accessor (`DataConv.viewData`) of the cell's serde image — so a `DateTime`
    cell is read like the `Float` of its serial value and the ISO cells like `String`s; an error cell is
    `CellError` at its position. -/
theorem as_or_none_spec (σ : DataConv.Std) (d : Data) (pos : Pos) :
    (d.isError = false →
      asI64OrNone σ d pos = .ok (DataConv.viewData σ (toConv (serdeImage d))).asI64 ∧
      asF64OrNone σ d pos = .ok (DataConv.viewData σ (toConv (serdeImage d))).asF64) ∧
    (∀ k, d = .error k →
      asI64OrNone σ d pos = .err (.cellError k pos) ∧ asF64OrNone σ d pos = .err (.cellError k pos)) := by
  constructor
  · intro h; cases d <;> first | exact ⟨rfl, rfl⟩ | simp [Data.isError] at h
  · intro k h; subst h; exact ⟨rfl, rfl⟩

/-- the table behind it, for `as_i64` -/
theorem as_i64_or_none_table (σ : DataConv.Std) (pos : Pos) :
    (∀ v, asI64OrNone σ (.int v) pos = .ok (some v)) ∧
    (∀ b, asI64OrNone σ (.float b) pos = .ok (some (σ.floatAsI64 b))) ∧
    (∀ b, asI64OrNone σ (.bool b) pos = .ok (some (if b then 1 else 0))) ∧
    (∀ s, asI64OrNone σ (.string s) pos = .ok (σ.atoiI64 s)) ∧
    asI64OrNone σ .empty pos = .ok none ∧
    (∀ b, asI64OrNone σ (.dateTime b) pos = .ok (some (σ.floatAsI64 b))) ∧
    (∀ s, asI64OrNone σ (.dateTimeIso s) pos = .ok (σ.atoiI64 s)) ∧
    (∀ s, asI64OrNone σ (.durationIso s) pos = .ok (σ.atoiI64 s)) :=
  ⟨fun _ => rfl, fun _ => rfl, fun _ => rfl, fun _ => rfl, rfl, fun _ => rfl, fun _ => rfl, fun _ => rfl⟩

/-- `…_or_string`: the accessor's value, or else the `Display` text of the serde image (`""` for `Empty`,
    `true`/`false`, the ISO text) -/
theorem as_or_string_spec (σ : DataConv.Std) (d : Data) (pos : Pos) (h : d.isError = false) :
    asI64OrString σ d pos = .ok (match (DataConv.viewData σ (toConv (serdeImage d))).asI64 with
      | some v => .ok v
      | none => .error (displayData σ (serdeImage d))) ∧
    asF64OrString σ d pos = .ok (match (DataConv.viewData σ (toConv (serdeImage d))).asF64 with
      | some v => .ok v
      | none => .error (displayData σ (serdeImage d))) := by
  cases d <;> first | exact ⟨rfl, rfl⟩ | simp [Data.isError] at h

/-- `_or_none` is `_or_string` with the text dropped -/
theorem as_or_none_of_or_string (σ : DataConv.Std) (d : Data) (pos : Pos) :
    asI64OrNone σ d pos = (asI64OrString σ d pos).map (fun r => match r with | .ok v => some v | .error _ => none) ∧
    asF64OrNone σ d pos = (asF64OrString σ d pos).map (fun r => match r with | .ok v => some v | .error _ => none) := by
  unfold asI64OrNone asI64OrString asF64OrNone asF64OrString
  cases hd : dataOfCell d pos with
  | ok x =>
    simp only [DRes.map]
    constructor
    · cases (DataConv.viewData σ (toConv x)).asI64 <;> rfl
    · cases (DataConv.viewData σ (toConv x)).asF64 <;> rfl
  | err e => exact ⟨rfl, rfl⟩
  | panic s => exact ⟨rfl, rfl⟩

/-! ## `with_deserialize_headers` -/

/-- `with_deserialize_headers::<T>()` for a struct `T` with fields `fs` IS `with_headers(fs)` -/
theorem with_deserialize_headers_eq (std : Std) (fs : List Str) (r : Rng Data) :
    withDeserializeHeaders (some fs) = .custom fs ∧
    new std (withDeserializeHeaders (some fs)) r = new std (.custom fs) r := ⟨rfl, rfl⟩

/-- for a `T` that is not a struct (tuple, sequence, map) no header is requested: no column is selected and
    every record is handed an empty sequence / map -/
theorem with_deserialize_headers_non_struct {std : Std} {r : Rng Data} {st : DeState}
    (h : new std (withDeserializeHeaders none) r = .ok st) :
    st.colIdx = [] ∧ ∀ row pos sh, rowItem st.colIdx st.headers row pos sh = .seq 0 [] ∨
      rowItem st.colIdx st.headers row pos sh = .map [] := by
  have hc : st.colIdx = [] := by
    unfold withDeserializeHeaders new at h
    simp only [Option.getD_none] at h
    cases hr : Range.rows r with
    | nil => simp [hr] at h; subst h; rfl
    | cons hd rest =>
      simp only [hr] at h
      cases hh : headerRow std hd (r.start.getD (0, 0)) with
      | ok hs => simp [hh, customIdx, mapMD] at h; subst h; rfl
      | err e => simp [hh] at h
      | panic s => simp [hh] at h
  refine ⟨hc, ?_⟩
  intro row pos sh
  rw [hc]
  cases sh with
  | seq => left; rfl
  | map => cases st.headers with
    | none => left; rfl
    | some hs => right; rfl

/-! ## the builder: the last configuration call wins -/

/-- Whatever constructor a builder came from and whatever `has_headers` calls came before, the LAST
    `has_headers(yes)` alone decides: `Headers::All` for `true`, `Headers::None` for `false`; without any such
    call the constructor's configuration stands. -/
theorem builder_last_call_wins (start : Headers) (calls : List Bool) :
    builderCalls start calls = (match calls.getLast? with
      | some true => .all
      | some false => .none
      | none => start) := by
  induction calls generalizing start with
  | nil => rfl
  | cons c cs ih =>
    have h : builderCalls start (c :: cs) = builderCalls (hasHeaders start c) cs := rfl
    rw [h, ih]
    cases cs with
    | nil => cases c <;> rfl
    | cons d ds =>
      rw [List.getLast?_cons_cons]
      have : (d :: ds).getLast? = some ((d :: ds).getLast (by simp)) := List.getLast?_eq_some_getLast (by simp)
      rw [this]
      cases (d :: ds).getLast (by simp) <;> rfl

/-- in particular `has_headers(false)` followed by `has_headers(true)` is a plain header-reading builder again -/
theorem builder_reenable (start : Headers) :
    builderCalls start [false, true] = builderNew ∧ builderCalls start [true, false] = .none := ⟨rfl, rfl⟩

/-! ## the hypotheses are satisfiable: a concrete range away from the origin -/

/-- a `Std` for the examples (no float is formatted or parsed in them) -/
def exStd : Std := ⟨fun _ => [], fun _ => none, fun _ => none⟩

/-- rows 5–7 × columns 3–4: header row `" id"`, `"b "`, then `(1, _)`, `(#NULL!, 1.5)` -/
def exRange : Rng Data :=
  ⟨5, 3, 7, 4, [.string " id".toList, .string "b ".toList, .int 1, .empty, .error 3, .float 0x3FF8000000000000]⟩

theorem exRange_wf : WF exRange :=
  ⟨⟨by decide, fun _ => by decide⟩, by decide, by decide⟩

/-- headers selected in the opposite order, padded differently: columns 1 then 0 -/
example : ∃ st, new exStd (.custom ["b".toList, "id ".toList]) exRange = .ok st ∧ st.colIdx = [1, 0] ∧
    items .seq 3 st =
      [some (.seq 2 [.ok (.empty, (6, 4)), .ok (.int 1, (6, 3))]),
       some (.seq 2 [.ok (.float 0x3FF8000000000000, (7, 4)), .ok (.error 3, (7, 3))]),
       none] ∧
    sizeHint st = (2, some 2) ∧ sizeHint (nextN .seq 1 st) = (1, some 1) ∧
    sizeHint (nextN .seq 3 st) = (0, some 0) :=
  ⟨_, rfl, by decide, by decide, by decide, by decide, by decide⟩

/-- by header name: the empty cell is skipped, the error cell fails its record at its own position (7,3) -/
example : ∃ st, new exStd .all exRange = .ok st ∧
    items .map 2 st =
      [some (.map [.ok (" id".toList, .int 1, (6, 3))]),
       some (.map [.ok (" id".toList, .error 3, (7, 3)), .ok ("b ".toList, .float 0x3FF8000000000000, (7, 4))])] ∧
    (recordMap exStd [.any] 0 [.ok (" id".toList, .error 3, (7, 3))]).2 = some (.err (.cellError 3 (7, 3))) :=
  ⟨_, rfl, by decide, by decide⟩

example : new exStd (.custom ["b".toList, "zz ".toList, "yy".toList]) exRange = .err (.headerNotFound "zz".toList) := by
  decide

end De
