import CalVerif.Lemmas.De
/-! # C09 — serde deserialization maps rows to records faithfully
    Property theorems only (helper lemmas live in `Lemmas/De.lean`; the model in `Model/De.lean`).
    `WF r`: `r` satisfies the rectangle invariant of C05 and its coordinates are `u32` values.
    Every theorem holds for every `std : Std` (the unmodelled `f64::to_string` / `parse::<f64|f32>`). -/
namespace De
open Range (Rng)

/-! ## one item per row after the header row, in order; `size_hint` exact -/

/-- The results of the first `k` calls to `next`: the `j`-th call deserializes row `j` after the
    header row (if there is one) at its absolute position `(start.row + hdr + j, start.col)`, and
    returns `None` once the rows are used up. -/
theorem items_spec {std : Std} {cfg : Headers} {r : Rng Data} {st : DeState} (hw : WF r)
    (h : new std cfg r = .ok st) (sh : Shape) (k : Nat) :
    items sh k st = (List.range k).map fun j =>
      ((Range.rows r)[j + hdrRows cfg r]?).map fun row =>
        rowItem st.colIdx st.headers row (r.sr + hdrRows cfg r + j, r.sc) sh := by
  obtain ⟨hrows, hcur, hb⟩ := new_state hw h
  rw [items_eq sh k st hb]
  apply List.map_congr_left
  intro j _
  unfold itemAt
  have e : st.rows[j]? = (Range.rows r)[j + hdrRows cfg r]? := by
    rw [hrows, List.getElem?_drop, Nat.add_comm]
  rw [e]
  cases hj : (Range.rows r)[j + hdrRows cfg r]? with
  | none => rfl
  | some row =>
    have hne : st.rows ≠ [] := by
      intro hn; rw [hn] at e; rw [hj] at e; simp at e
    rw [hcur hne]

/-- number of items = height − [header row consumed]: the `j`-th call returns an item iff `j` is below it -/
theorem items_count {std : Std} {cfg : Headers} {r : Rng Data} {st : DeState} (hw : WF r)
    (h : new std cfg r = .ok st) (sh : Shape) (k j : Nat) (hj : j < k) :
    (j < r.height - hdrRows cfg r → ∃ it, (items sh k st)[j]? = some (some it)) ∧
    (r.height - hdrRows cfg r ≤ j → (items sh k st)[j]? = some none) := by
  rw [items_spec hw h sh k]
  simp only [List.getElem?_map, List.getElem?_range hj, Option.map_some]
  have hlen := rows_length hw.inv
  constructor
  · intro hlt
    have : j + hdrRows cfg r < (Range.rows r).length := by rw [hlen]; omega
    rw [List.getElem?_eq_getElem this]
    exact ⟨_, rfl⟩
  · intro hge
    have hd : hdrRows cfg r ≤ r.height := by
      unfold hdrRows; cases cfg <;> simp <;> omega
    have : (Range.rows r).length ≤ j + hdrRows cfg r := by rw [hlen]; omega
    rw [List.getElem?_eq_none this]; rfl

/-- After `k` calls to `next` the hint is `(n − k, Some(n − k))` with `n = height − [header row]`
    (truncated subtraction: it never underflows, also for empty and header-only ranges). -/
theorem size_hint_exact {std : Std} {cfg : Headers} {r : Rng Data} {st : DeState} (hw : WF r)
    (h : new std cfg r = .ok st) (sh : Shape) (k : Nat) :
    sizeHint (nextN sh k st) =
      (r.height - hdrRows cfg r - k, some (r.height - hdrRows cfg r - k)) := by
  obtain ⟨hrows, _, _⟩ := new_state hw h
  unfold sizeHint
  rw [nextN_rows, hrows, List.length_drop, List.length_drop, rows_length hw.inv]

/-! ## without headers: a record is the row's cells by position -/

/-- `Headers::None`: whatever the record type asks for (`seq` or `map`: there are no headers, so a map request
    falls back to a sequence), row `j` is handed over as its `width` cells in column order, the cell at
    relative column `i` with the absolute position `(start.row + j, start.col + i)`. -/
theorem seq_by_position {std : Std} {r : Rng Data} {st : DeState} (hw : WF r)
    (h : new std .none r = .ok st) (sh : Shape) (j : Nat) (row : List Data)
    (hr : (Range.rows r)[j]? = some row) :
    rowItem st.colIdx st.headers row (r.sr + j, r.sc) sh =
      .seq r.width (row.zipIdx.map fun p => .ok (p.1, (r.sr + j, r.sc + p.2))) := by
  rw [new_none_eq] at h; injection h with h; subst h
  have hl := row_length hw.inv j row hr
  have h0 : r.inner.length ≠ 0 := by
    intro hz; rw [rows_nil_of_empty hz] at hr; simp at hr
  have hwd := width_eq h0
  have hec := hw.ec
  have ho := hw.inv.ord h0
  have hev : seqEvents (List.range r.width) row (r.sr + j, r.sc) =
      row.zipIdx.map fun p => .ok (p.1, (r.sr + j, r.sc + p.2)) := by
    rw [← hl, seqEvents_range]
    apply List.map_congr_left
    intro p hp
    obtain ⟨d, i⟩ := p
    have hm := List.mem_zipIdx hp
    rw [cellPos_eq _ _ (by simp only; omega)]
  cases sh <;> simp [rowItem, hev]

/-! ## with headers: fields are bound by header string, empty cells are absent -/

/-- `Headers::All` on a range with a header row `hd` (`new` succeeded, so `hd` has no error cell): the
    headers are the texts of the header cells, and a record type asking for a map/struct is handed, for
    row `j` after the header row, exactly the NON-EMPTY cells in column order, each keyed by the header
    string of its column and carrying its absolute position. -/
theorem map_by_header {std : Std} {r : Rng Data} {st : DeState} (hw : WF r)
    (h : new std .all r = .ok st) (hd : List Data) (hhd : (Range.rows r)[0]? = some hd)
    (j : Nat) (row : List Data) (hr : (Range.rows r)[j + 1]? = some row) :
    st.headers = some (hd.map (textOf std)) ∧ (∀ d ∈ hd, d.isError = false) ∧
    rowItem st.colIdx st.headers row (r.sr + 1 + j, r.sc) .map =
      .map (row.zipIdx.filterMap fun p =>
        if p.1.isEmpty then none
        else some (.ok ((hd.map (textOf std)).getD p.2 [], p.1, (r.sr + 1 + j, r.sc + p.2)))) := by
  cases hrows : Range.rows r with
  | nil => rw [hrows] at hhd; simp at hhd
  | cons hd' rest =>
    have : hd' = hd := by rw [hrows] at hhd; simpa using hhd
    subst this
    have h0 := nonempty_of_rows hrows
    rw [new_all_eq std h0 hrows] at h
    cases hh : headerRow std hd' (r.sr, r.sc) with
    | err e => simp [hh] at h
    | panic s => simp [hh] at h
    | ok hs =>
      simp only [hh] at h; injection h with h; subst h
      obtain ⟨hhs, hne⟩ := headerRow_eq_ok hh
      subst hhs
      refine ⟨rfl, hne, ?_⟩
      have hl := row_length hw.inv (j + 1) row hr
      have hl0 := row_length hw.inv 0 hd' hhd
      have hwd := width_eq h0
      have hec := hw.ec
      have ho := hw.inv.ord h0
      simp only [rowItem]
      congr 1
      rw [hl0, ← hl, mapEvents_range _ _ _ (by simp [hl0, hl])]
      apply filterMap_congr_mem
      intro p hp
      obtain ⟨d, i⟩ := p
      have hm := List.mem_zipIdx hp
      rw [cellPos_eq _ _ (by simp only; omega)]

/-! ## selecting headers -/

/-- `Headers::Custom(names)`: the selected column of the `k`-th requested name is the FIRST column whose
    trimmed header equals the trimmed name; columns come in the order of the request. -/
theorem custom_headers {hs names : List Str} {idx : List Nat} (hc : customIdx hs names = .ok idx) :
    idx.length = names.length ∧
    ∀ (k : Nat) (n : Str), names[k]? = some n →
      ∃ i, idx[k]? = some i ∧ ∃ hi : i < hs.length, trim hs[i] = trim n ∧
        ∀ (i' : Nat) (hi' : i' < i), trim (hs[i']'(by omega)) ≠ trim n := by
  unfold customIdx at hc
  refine ⟨mapMD_ok_length _ _ _ hc, ?_⟩
  intro k n hk
  obtain ⟨i, hik, hf⟩ := mapMD_ok_getElem _ _ _ hc k n hk
  refine ⟨i, hik, ?_⟩
  cases hfi : hs.findIdx? (fun h => trim h == trim n) with
  | none => simp [hfi] at hf
  | some i0 =>
    simp only [hfi] at hf; injection hf with hf; subst hf
    obtain ⟨hi, hp, hmin⟩ := List.findIdx?_eq_some_iff_getElem.mp hfi
    refine ⟨hi, by simpa using hp, ?_⟩
    intro i' hi'
    have := hmin i' hi'
    simpa using this

/-- every requested name that occurs (after trimming) among the headers is found -/
theorem custom_headers_total {hs names : List Str}
    (hall : ∀ n ∈ names, ∃ h ∈ hs, trim h = trim n) : ∃ idx, customIdx hs names = .ok idx := by
  unfold customIdx
  refine ⟨names.map fun n => (hs.findIdx? (fun h => trim h == trim n)).getD 0, ?_⟩
  apply mapMD_ok_of_forall
  intro n hn
  obtain ⟨h, hh, ht⟩ := hall n hn
  cases hfi : hs.findIdx? (fun h => trim h == trim n) with
  | none =>
    have := List.findIdx?_eq_none_iff.mp hfi h hh
    simp [ht] at this
  | some i => rfl

/-- `HeaderNotFound` carries the (trimmed) FIRST requested name that matches no header -/
theorem header_not_found {hs : List Str} (pre : List Str) (n : Str) (post : List Str)
    (hpre : ∀ p ∈ pre, ∃ h ∈ hs, trim h = trim p) (hn : ∀ h ∈ hs, trim h ≠ trim n) :
    customIdx hs (pre ++ n :: post) = .err (.headerNotFound (trim n)) := by
  unfold customIdx
  apply mapMD_first_err _ (fun m => (hs.findIdx? (fun h => trim h == trim m)).getD 0)
  · intro p hp
    obtain ⟨h, hh, ht⟩ := hpre p hp
    cases hfi : hs.findIdx? (fun h => trim h == trim p) with
    | none =>
      have := List.findIdx?_eq_none_iff.mp hfi h hh
      simp [ht] at this
    | some i => rfl
  · have : hs.findIdx? (fun h => trim h == trim n) = none := by
      apply List.findIdx?_eq_none_iff.mpr
      intro h hh
      simpa using hn h hh
    simp [this]

/-- Selecting any sub-list of the requested names in any order (with repetitions) selects the
    corresponding columns in that order: the column of a name does not depend on the other names. -/
theorem column_permutation_independent {hs names : List Str} {idx : List Nat}
    (hc : customIdx hs names = .ok idx) (sel : List Nat) (hsel : ∀ s ∈ sel, s < names.length) :
    customIdx hs (sel.map fun s => names.getD s []) = .ok (sel.map fun s => idx.getD s 0) := by
  have hlen := (custom_headers hc).1
  unfold customIdx at hc ⊢
  apply mapMD_ok_of_pointwise
  · simp
  · intro k a hk
    rw [List.getElem?_map] at hk
    cases hs' : sel[k]? with
    | none => simp [hs'] at hk
    | some s =>
      simp only [hs', Option.map_some] at hk
      injection hk with hk
      have hslt : s < names.length := hsel s (List.mem_of_getElem? hs')
      have hn : names[s]? = some a := by
        rw [← hk]; simp [List.getD, List.getElem?_eq_getElem hslt]
      obtain ⟨b, hb, hf⟩ := mapMD_ok_getElem _ _ _ hc s a hn
      refine ⟨b, ?_, hf⟩
      simp [List.getElem?_map, hs', List.getD, hb]

/-- … and the events handed to the record follow: the cells of the selected columns, in the selected order -/
theorem column_permutation_events (idx : List Nat) (row : List Data) (pos : Pos) (sel : List Nat)
    (hsel : ∀ s ∈ sel, s < idx.length) :
    seqEvents (sel.map fun s => idx.getD s 0) row pos =
      sel.map fun s => (seqEvents idx row pos).getD s (.panic "") := by
  unfold seqEvents
  rw [List.map_map]
  apply List.map_congr_left
  intro s hs
  have := hsel s hs
  simp [List.getD, List.getElem?_map, List.getElem?_eq_getElem this]

/-- `new` with custom headers on a range whose header row `hd` has no error cell: the outcome is that
    of the column selection over the header texts (so `custom_headers`, `header_not_found` and
    `column_permutation_independent` describe `RangeDeserializer::new`). -/
theorem new_custom_spec (std : Std) (names : List Str) {r : Rng Data} {hd : List Data}
    {rest : List (List Data)} (hr : Range.rows r = hd :: rest) (hne : ∀ d ∈ hd, d.isError = false) :
    new std (.custom names) r =
      (match customIdx (hd.map (textOf std)) names with
       | .ok idx => .ok ⟨idx, some (hd.map (textOf std)), rest, nextRowPos (r.sr, r.sc)⟩
       | .err e => .err e
       | .panic s => .panic s) := by
  rw [new_custom_eq std names (nonempty_of_rows hr) hr, headerRow_ok std hd _ hne]
  simp only
  cases customIdx (hd.map (textOf std)) names <;> rfl

end De
