import CalVerif.Lemmas.De
/-! # C09 — serde deserialization maps rows to records faithfully
    Property theorems only (helper lemmas live in `Lemmas/De.lean`; the model in `Model/De.lean`).
    `WF r`: `r` satisfies the rectangle invariant of C05 and its coordinates are `u32` values.
    Every theorem holds for every `std : Std` (the unmodelled `f64::to_string` / `parse::<f64|f32>`). -/
namespace De
open Range (Rng)

/-! ## one item per row after the header row, in order; `size_hint` exact -/

/-- The results of the first `k` calls to `next`: the `j`-th call deserializes row `j` after the
    header row (if there is one) at its absolute position `(start.row + hdr + j, start.col)`, and
    returns `None` once the rows are used up. -/
theorem items_spec {std : Std} {cfg : Headers} {r : Rng Data} {st : DeState} (hw : WF r)
    (h : new std cfg r = .ok st) (sh : Shape) (k : Nat) :
    items sh k st = (List.range k).map fun j =>
      ((Range.rows r)[j + hdrRows cfg r]?).map fun row =>
        rowItem st.colIdx st.headers row (r.sr + hdrRows cfg r + j, r.sc) sh := by
  obtain ⟨hrows, hcur, hb⟩ := new_state hw h
  rw [items_eq sh k st hb]
  apply List.map_congr_left
  intro j _
  unfold itemAt
  have e : st.rows[j]? = (Range.rows r)[j + hdrRows cfg r]? := by
    rw [hrows, List.getElem?_drop, Nat.add_comm]
  rw [e]
  cases hj : (Range.rows r)[j + hdrRows cfg r]? with
  | none => rfl
  | some row =>
    have hne : st.rows ≠ [] := by
      intro hn; rw [hn] at e; rw [hj] at e; simp at e
    rw [hcur hne]

/-- number of items = height − [header row consumed]: the `j`-th call returns an item iff `j` is below it -/
theorem items_count {std : Std} {cfg : Headers} {r : Rng Data} {st : DeState} (hw : WF r)
    (h : new std cfg r = .ok st) (sh : Shape) (k j : Nat) (hj : j < k) :
    (j < r.height - hdrRows cfg r → ∃ it, (items sh k st)[j]? = some (some it)) ∧
    (r.height - hdrRows cfg r ≤ j → (items sh k st)[j]? = some none) := by
  rw [items_spec hw h sh k]
  simp only [List.getElem?_map, List.getElem?_range hj, Option.map_some]
  have hlen := rows_length hw.inv
  constructor
  · intro hlt
    have : j + hdrRows cfg r < (Range.rows r).length := by rw [hlen]; omega
    rw [List.getElem?_eq_getElem this]
    exact ⟨_, rfl⟩
  · intro hge
    have hd : hdrRows cfg r ≤ r.height := by
      unfold hdrRows; cases cfg <;> simp <;> omega
    have : (Range.rows r).length ≤ j + hdrRows cfg r := by rw [hlen]; omega
    rw [List.getElem?_eq_none this]; rfl

/-- After `k` calls to `next` the hint is `(n − k, Some(n − k))` with `n = height − [header row]`
    (truncated subtraction: it never underflows, also for empty and header-only ranges). -/
theorem size_hint_exact {std : Std} {cfg : Headers} {r : Rng Data} {st : DeState} (hw : WF r)
    (h : new std cfg r = .ok st) (sh : Shape) (k : Nat) :
    sizeHint (nextN sh k st) =
      (r.height - hdrRows cfg r - k, some (r.height - hdrRows cfg r - k)) := by
  obtain ⟨hrows, _, _⟩ := new_state hw h
  unfold sizeHint
  rw [nextN_rows, hrows, List.length_drop, List.length_drop, rows_length hw.inv]

end De
