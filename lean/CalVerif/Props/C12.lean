import CalVerif.Lemmas.BiffStrings
import CalVerif.Lemmas.BiffSstCells
/-! # C12 — XLS strings decode identically however records are split and characters packed

    Property theorems only (helper lemmas live in `Lemmas/BiffStrings.lean`).
    Model: `Model/BiffStrings.lean` (RecordIter, continue_record, skip, decode_to, read_dbcs,
    read_rich_extended_string, parse_sst). Encoder and `Legal` layouts: `Spec/SstEnc.lean`.
    Text = list of Unicode scalar values; `decodeUtf16` is the (trusted) behaviour of encoding_rs on the
    code units of one segment, `utf16` the writer's encoding of a text. -/
namespace Biff

/-! ## framing -/

/-- `RecordIter` gathers a record and its CONTINUE records back into exactly the fragments that were framed:
    payload `d`, continuation payloads `conts` (each non-empty and, like `d`, shorter than 2^16), whatever
    non-CONTINUE bytes `rest` follow. -/
theorem frame_roundtrip (typ : Nat) (d : Bytes) (conts : List Bytes) (rest : Bytes)
    (ht : typ < 65536) (hd : d.length < 65536) (hall : ∀ f ∈ conts, f ≠ [] ∧ f.length < 65536)
    (hrest : notCont rest) :
    nextRecord (frameRec typ d conts ++ rest) = some (.ok (⟨typ, d, conts⟩, rest)) :=
  nextRecord_frameRec typ d conts rest ht hd hall hrest

/-! ## characters -/

/-- one segment (all the characters still owed) is read exactly — its code units — under either packing
    (16-bit, or 8-bit when every unit is < 0x100) and the reader stops on the byte after it -/
theorem dbcs_segment (wide : Bool) (us : List Nat) (tail : Bytes) (cont : List Bytes)
    (hlt : ∀ u ∈ us, u < 65536) (hpack : wide = false → ∀ u ∈ us, u < 256) :
    readDbcs us.length wide (encUnits wide us ++ tail) cont = .ok (us, ⟨tail, cont⟩) :=
  readDbcs_last wide us tail cont hlt hpack

/-- the split-read invariant ("`data` = unread rest of the current fragment, `cont` = fragments still queued,
    `n` = characters still owed"): a first segment `s0` and then one CONTINUE record per further segment, each
    with its own packing announced by a fresh flag byte (any of them but the last may hold the flag byte
    alone), yield the code units of all segments in order — wherever the breaks fall, between the halves of a
    surrogate pair included; the reader stops exactly after the last character (state `lay rest`). -/
theorem dbcs_split_invariant (segs : List (List Nat × Bool)) (s0 : List Nat) (w0 : Bool) (n : Nat) (rest : List Tok)
    (hn : n = s0.length + (segs.map (·.1.length)).sum)
    (h0 : ∀ u ∈ s0, u < 65536) (hp0 : packOk (s0, w0))
    (hall : ∀ p ∈ segs, (∀ u ∈ p.1, u < 65536) ∧ packOk p) (hlast : lastOk segs) :
    readDbcs n w0 (lay (.b (encUnits w0 s0) :: (contToks segs ++ rest))).1
        (lay (.b (encUnits w0 s0) :: (contToks segs ++ rest))).2
      = .ok (s0 ++ (segs.map (·.1)).flatten, ⟨(lay rest).1, (lay rest).2⟩) :=
  readDbcs_segs segs s0 w0 n rest hn h0 hp0 hall hlast

/-- (a fact about UTF-16 decoding, no longer needed by the reader since the units are decoded once:)
    decoding segment by segment gives the text of the whole string as long as no break separates a high
    surrogate from its low surrogate (the first segment may be empty, later ones are not) -/
theorem segments_decode_as_whole (s0 : List Nat) (segs : List (List Nat))
    (hp : pairsKept (s0 :: segs)) (hne : ∀ s ∈ segs, s ≠ []) :
    decodeUtf16 s0 ++ (segs.map decodeUtf16).flatten = decodeUtf16 (s0 ++ segs.flatten) :=
  decodeUtf16_segments segs s0 hp hne

/-- the writer's UTF-16 form of a text decodes back to the text -/
theorem utf16_roundtrip : ∀ (cs : List Nat), (∀ c ∈ cs, isScalar c) → decodeUtf16 (utf16 cs) = cs
  | [], _ => rfl
  | c :: cs, h => by
    have hc : isScalar c := h c (by simp)
    have ih := utf16_roundtrip cs (fun x hx => h x (by simp [hx]))
    unfold isScalar at hc
    by_cases hb : c < 65536
    · have hu16 : utf16 (c :: cs) = c :: utf16 cs := by simp [utf16, hb]
      have hh : isHigh c = false := isHigh_false c (by omega)
      have hl : isLow c = false := isLow_false c (by omega)
      rw [hu16]
      cases hu : utf16 cs with
      | nil =>
        rw [hu] at ih
        have : cs = [] := by simpa [decodeUtf16] using ih.symm
        simp [decodeUtf16, hh, hl, this]
      | cons v r =>
        rw [decodeUtf16_cons2, ← hu, ih]
        simp [hh, hl]
    · have hu16 : utf16 (c :: cs) =
          (55296 + (c - 65536) / 1024) :: (56320 + (c - 65536) % 1024) :: utf16 cs := by simp [utf16, hb]
      rw [hu16, decodeUtf16_cons2, ih]
      have hh : isHigh (55296 + (c - 65536) / 1024) = true := isHigh_true _ (by omega)
      have hl : isLow (56320 + (c - 65536) % 1024) = true := isLow_true _ (by omega)
      simp only [hh, hl, if_true, List.cons.injEq, and_true]
      omega

/-! ## skipping rgRun / ExtRst -/

/-- `Record::skip` across fragment boundaries consumes exactly the block: a block of `bs.length` bytes, broken
    into CONTINUE records at any byte offsets (`cuts`; every continuation chunk non-empty), is skipped and the
    reader is left on the first byte after it — nothing of what follows (`rest`) is eaten. -/
theorem skip_consumes_exactly (bs : Bytes) (cuts : List Nat) (rest : List Tok) (h : blockOk (some bs) cuts) :
    skip bs.length (lay (blockToks (some bs) cuts ++ rest)).1 (lay (blockToks (some bs) cuts ++ rest)).2
      = .ok ⟨(lay rest).1, (lay rest).2⟩ :=
  skip_block bs cuts rest h

/-- special case inside one fragment -/
theorem skip_prefix_exact (x tail : Bytes) (cont : List Bytes) :
    skip x.length (x ++ tail) cont = .ok ⟨tail, cont⟩ := skip_prefix x tail cont

/-! ## one string -/

/-- an entry written without any break (header, characters in one packing, rgRun, ExtRst) reads back as
    its text; rich-text runs and extended data are skipped and the reader stands exactly after the entry -/
theorem read_string_unsplit (e : Entry) (wide : Bool) (tail : Bytes) (cont : List Bytes)
    (hlt : ∀ u ∈ e.units, u < 65536) (hcch : e.units.length < 65536)
    (hpack : wide = false → ∀ u ∈ e.units, u < 256)
    (hruns : runsLenOk e.runs) (hext : extLenOk e.ext) :
    readRichAt ⟨header e wide ++ (encUnits wide e.units ++ ((e.runs.getD []) ++ ((e.ext.getD []) ++ tail))), cont⟩
      = .ok (decodeUtf16 e.units, ⟨tail, cont⟩) := by
  rw [readRichAt_header e wide _ _ hcch hruns hext, readDbcs_last wide e.units _ _ hlt hpack]
  simp only [Res.bind_ok, runBytes, extBytes]
  have h1 : optLen e.runs = (e.runs.getD []).length := by cases e.runs <;> rfl
  have h2 : optLen e.ext = (e.ext.getD []).length := by cases e.ext <;> rfl
  rw [h1, skip_prefix]
  simp only [Res.bind_ok]
  rw [h2, skip_prefix]
  rfl

/-- an entry under any legal layout — CONTINUE break before it, breaks between its characters with a fresh
    flag byte and any 8/16-bit packing per segment, breaks inside rgRun and ExtRst — reads back as its text,
    and the reader stands exactly where the next entry starts (`lay rest`) -/
theorem read_string_split (e : Entry) (ly : EntryLayout) (hok : EntryOk e ly) (rest : List Tok) :
    readRich ⟨(lay (entryToks e ly ++ rest)).1, (lay (entryToks e ly ++ rest)).2⟩
      = .ok (decodeUtf16 e.units, ⟨(lay rest).1, (lay rest).2⟩) :=
  readRich_entry e ly hok rest

/-! ## the table -/

/-- no CONTINUE record produced by the encoder under a legal layout is empty (so the D31-b situation
    never arises on well-formed input) -/
theorem encoded_fragments_nonempty (cstTotal : Nat) (table : List Entry) (lys : List EntryLayout)
    (h : Legal cstTotal table lys) : ∀ f ∈ (encodeSst cstTotal table lys).tail, f ≠ [] := by
  intro f hf
  exact lay_good (.b (le32 cstTotal ++ le32 table.length) :: tableToks table lys)
    (by simp only [goodToks]; exact goodToks_tableToks table lys h.entries) f hf

/-- **round trip**: for every table and every legal layout λ (`lys`), framing the encoded SST + CONTINUE
    records — followed by any further records `rest` that do not start with a CONTINUE — and running
    `RecordIter` + `parse_sst` over the stream gives the text of every string, in order -/
theorem sst_roundtrip_in_stream (cstTotal : Nat) (table : List Entry) (lys : List EntryLayout)
    (h : Legal cstTotal table lys) (fuel : Nat) (rest : Bytes) (hrest : notCont rest) :
    sstFromStream (fuel + 1) (frameSst (encodeSst cstTotal table lys) ++ rest)
      = .ok (table.map fun e => decodeUtf16 e.units) :=
  sstFromStream_encode cstTotal table lys h.entries h.count
    (fun f hf => Nat.lt_of_le_of_lt (h.sizes f hf) (by omega)) fuel rest hrest

theorem sst_roundtrip (cstTotal : Nat) (table : List Entry) (lys : List EntryLayout)
    (h : Legal cstTotal table lys) (fuel : Nat) :
    sstFromStream (fuel + 1) (frameSst (encodeSst cstTotal table lys))
      = .ok (table.map fun e => decodeUtf16 e.units) := by
  have := sst_roundtrip_in_stream cstTotal table lys h fuel [] notCont_nil
  rwa [List.append_nil] at this

/-- the same at the level of the gathered record (what `parse_sst` is handed by `parse_workbook`) -/
theorem parseSst_roundtrip (cstTotal : Nat) (table : List Entry) (lys : List EntryLayout)
    (h : Legal cstTotal table lys) :
    parseSst ⟨0xFC, (encodeSst cstTotal table lys).headD [], (encodeSst cstTotal table lys).tail⟩
      = .ok (table.map fun e => decodeUtf16 e.units) :=
  parseSst_encode cstTotal table lys h.entries h.count 0xFC

/-- **layout independence**: two legal layouts of the same table (different break sets, different packings,
    different cstTotal) decode to the same strings -/
theorem sst_layout_independent (t1 t2 : Nat) (table : List Entry) (l1 l2 : List EntryLayout)
    (h1 : Legal t1 table l1) (h2 : Legal t2 table l2) (f1 f2 : Nat) :
    sstFromStream (f1 + 1) (frameSst (encodeSst t1 table l1))
      = sstFromStream (f2 + 1) (frameSst (encodeSst t2 table l2)) := by
  rw [sst_roundtrip t1 table l1 h1, sst_roundtrip t2 table l2 h2]

/-- **text round trip**: a table of texts (scalar values), stored as UTF-16 with optional runs / extended
    blocks, reads back as those texts under every legal layout -/
theorem sst_text_roundtrip (cstTotal : Nat) (texts : List (List Nat)) (table : List Entry) (lys : List EntryLayout)
    (htexts : table.map (·.units) = texts.map utf16) (hscalar : ∀ t ∈ texts, ∀ c ∈ t, isScalar c)
    (h : Legal cstTotal table lys) (fuel : Nat) :
    sstFromStream (fuel + 1) (frameSst (encodeSst cstTotal table lys)) = .ok texts := by
  rw [sst_roundtrip cstTotal table lys h]
  congr 1
  have : (table.map fun e => decodeUtf16 e.units) = (table.map (·.units)).map decodeUtf16 := by
    rw [List.map_map]; rfl
  rw [this, htexts, List.map_map]
  conv => rhs; rw [← List.map_id texts]
  apply List.map_congr_left
  intro t ht
  exact utf16_roundtrip t (hscalar t ht)

/-! ## the cells that refer to the table (composition with C02's worksheet model) -/

/-- **every cell that refers to a shared string is unaffected by the layout of the table.**
    A workbook stream = globals substream (any records `pre` whose arms succeed, the SST + CONTINUE records of
    `table` under a legal layout, more such records `post`, EOF) followed by the sheet substreams `sheets`.
    `BiffWorkbook.workbookSheet` = `parse_workbook` as far as strings go: the globals loop's `strings`
    (C12's `parseSst` on the gathered record), then C02's worksheet loop `BiffCells.sheetRange` with
    `env.strings = strings` on the substream at the sheet's offset.
    (1) For ANY two legal layouts (break sets, per-segment packings, cstTotal) of the same table — rich-text runs
        and extended blocks included — every sheet substream decodes to the same `Range`: both equal the range read
        with `strings` = the stored texts. The offsets differ (`p1`, `p2`: the SST has another size) but point at
        the same bytes.
    (2) Under that table a LABELSST record with index `i` gives its cell exactly the text of `table[i]`
        (`parse_label_sst`: `strings[i]`). -/
theorem labelsst_cells_layout_independent (arm : Rec → Res Unit) (env0 : BiffCells.Env)
    (t1 t2 : Nat) (table : List Entry) (l1 l2 : List EntryLayout)
    (h1 : Legal t1 table l1) (h2 : Legal t2 table l2)
    (pre post : List (Nat × Bytes))
    (hpre : ∀ p ∈ pre, BiffWorkbook.inertRec arm p) (hpost : ∀ p ∈ post, BiffWorkbook.inertRec arm p)
    (sheets : Bytes) (hsheets : notCont sheets) (p1 p2 : Nat)
    (hp1 : p1 ≤ (BiffWorkbook.wbStream t1 table l1 pre post sheets).length)
    (hp2 : p2 ≤ (BiffWorkbook.wbStream t2 table l2 pre post sheets).length)
    (hsame : (BiffWorkbook.wbStream t1 table l1 pre post sheets).drop p1 =
             (BiffWorkbook.wbStream t2 table l2 pre post sheets).drop p2) :
    (BiffWorkbook.workbookSheet arm env0 (BiffWorkbook.wbStream t1 table l1 pre post sheets) p1 =
        BiffCells.sheetRange { env0 with strings := table.map fun e => decodeUtf16 e.units }
          ((BiffWorkbook.wbStream t1 table l1 pre post sheets).drop p1))
    ∧ (BiffWorkbook.workbookSheet arm env0 (BiffWorkbook.wbStream t1 table l1 pre post sheets) p1 =
        BiffWorkbook.workbookSheet arm env0 (BiffWorkbook.wbStream t2 table l2 pre post sheets) p2)
    ∧ (∀ (i row col xf : Nat) (e : Entry), table[i]? = some e → row < 65536 → col < 65536 →
        BiffCells.parseLabelSst { env0 with strings := table.map fun e => decodeUtf16 e.units }
            (BiffWorkbook.labelSstData row col xf i)
          = .ok (some (row, col, BiffCells.Val.str (decodeUtf16 e.units)))) := by
  have e1 := BiffWorkbook.workbookSheet_encode arm env0 t1 table l1 h1 pre post hpre hpost sheets hsheets p1 hp1
  have e2 := BiffWorkbook.workbookSheet_encode arm env0 t2 table l2 h2 pre post hpre hpost sheets hsheets p2 hp2
  refine ⟨e1, ?_, ?_⟩
  · rw [e1, e2, hsame]
  · intro i row col xf e he hr hc
    have hi : i < 4294967296 := by
      have : i < table.length := by
        rcases Nat.lt_or_ge i table.length with h | h
        · exact h
        · rw [List.getElem?_eq_none h] at he; cases he
      have := h1.count; omega
    exact BiffWorkbook.parseLabelSst_entry _ row col xf i (decodeUtf16 e.units) hr hc hi (by simp [he])

/-- the sheet offsets of `labelsst_cells_layout_independent` exist: the substream `k` bytes into `sheets` sits
    at (length of the globals) + `k` in either stream -/
theorem sheet_offsets_exist (t : Nat) (table : List Entry) (l : List EntryLayout)
    (pre post : List (Nat × Bytes)) (sheets : Bytes) (k : Nat) :
    (BiffWorkbook.wbStream t table l pre post sheets).drop
        ((BiffWorkbook.wbStream t table l pre post []).length + k) = sheets.drop k :=
  BiffWorkbook.wbStream_drop t table l pre post sheets k

/-- a LABEL cell (inline XLUnicodeString, either packing, the empty string included) holds the stored text:
    `parse_label` = cell header + `parse_string` (`string_roundtrip` below) -/
theorem label_cell_text (row col xf : Nat) (wide : Bool) (us : List Nat) (trail : Bytes)
    (hr : row < 65536) (hc : col < 65536)
    (hlt : ∀ u ∈ us, u < 65536) (hcch : us.length < 65536) (hpack : wide = false → ∀ u ∈ us, u < 256) :
    BiffCells.parseLabel (le16 row ++ (le16 col ++ (le16 xf ++ (xlUnicodeString wide us ++ trail))))
      = .ok (row, col, BiffCells.Val.str (decodeUtf16 us)) :=
  BiffWorkbook.parseLabel_text row col xf wide us trail hr hc hlt hcch hpack

/-! The four carriers the property lists, and where each is proved:
    * shared-string table entries — `sst_roundtrip(_in_stream)`, `sst_layout_independent`, `sst_text_roundtrip`;
      the cells that refer to them — `labelsst_cells_layout_independent` (above);
    * label values — `label_cell_text` (above; C02's `step_label` / `biff_sheet_roundtrip` place the cell in the range);
    * formula-string values — the STRING (0x0207) arm is `parse_string(r.data)` on the whole payload, i.e.
      `string_roundtrip` below with `trail = []` (C02's `step_string` attaches it to the FORMULA position);
    * sheet names — the BoundSheet8 arm is `parse_short_string` on `r.data[6..]`, i.e. `short_string_roundtrip`
      below, followed by the deliberate removal of NUL characters; the whole record is C16's
      `boundsheet_roundtrip` / `boundsheet_name_exact` (Props/C16.lean, on the same `Biff.parseShortString`).
    BIFF5 byte strings (code pages other than 1200) are outside the model: exercised by the harness only. -/

/-! ## strings inside one record (sheet names, LABEL / STRING values) -/

/-- an XLUnicodeString (cch u16, flags, characters in either packing; the empty string included) followed by
    anything reads back as its text -/
theorem string_roundtrip (wide : Bool) (us : List Nat) (trail : Bytes)
    (hlt : ∀ u ∈ us, u < 65536) (hcch : us.length < 65536) (hpack : wide = false → ∀ u ∈ us, u < 256) :
    parseString (xlUnicodeString wide us ++ trail) true = .ok (decodeUtf16 us) :=
  parseString_roundtrip wide us trail hlt hcch hpack

/-- a ShortXLUnicodeString (cch u8, flags, characters in either packing) reads back as its text -/
theorem short_string_roundtrip (wide : Bool) (us : List Nat) (trail : Bytes)
    (hlt : ∀ u ∈ us, u < 65536) (hcch : us.length < 256) (hpack : wide = false → ∀ u ∈ us, u < 256) :
    parseShortString (shortXlUnicodeString wide us ++ trail) true = .ok (decodeUtf16 us) :=
  parseShortString_roundtrip wide us trail hlt hcch hpack

/-! ## termination of the modelled loops -/

/-- on ANY byte stream the record loop + `parse_sst` model finishes within `stream length + 1` steps of fuel
    (the budget the driver gives it): `outOfFuel` is never an answer -/
theorem sst_reader_never_out_of_fuel (s : Bytes) : sstFromStream (s.length + 1) s ≠ .outOfFuel :=
  sstFromStream_ne_fuel (s.length + 1) s (Nat.lt_succ_self _)

/-! ## no panic on any input (true since the robustness fixes: every fixed-offset read is length-checked) -/

/-- `parse_sst` on ANY gathered record (any payload, any CONTINUE fragments) returns `Ok` or `Err`:
    no slice index, no `unwrap`, can fail -/
theorem parseSst_no_panic (r : Rec) : ∀ e, parseSst r ≠ .panic e := parseSst_noPanic r

/-- `RecordIter::next` never panics -/
theorem nextRecord_no_panic (s : Bytes) (e : String) : nextRecord s ≠ some (.panic e) := nextRecord_noPanic s e

/-- **totality**: on ANY byte stream, record framing + `parse_sst` (hook `sst_from_stream`) answers `Ok` or
    `Err` within the driver's fuel — never a panic, never out of fuel -/
theorem sstFromStream_total (s : Bytes) :
    (∃ v, sstFromStream (s.length + 1) s = .ok v) ∨ (∃ e, sstFromStream (s.length + 1) s = .err e) :=
  sstFromStream_ok_or_err s

/-- the two malformed shapes that used to panic are errors: a rich-text header cut by the end of its
    fragment, and a negative string count -/
example : sstFromStream 99 [0xFC, 0, 0x0B, 0, 1, 0, 0, 0, 1, 0, 0, 0, 0, 0, 0x0C] = .err "Len:rich extended string:2:0" := by
  decide
example : (sstFromStream 99 [0xFC, 0, 8, 0, 1, 0, 0, 0, 0xFF, 0xFF, 0xFF, 0xFF]).isOk = false := by decide

/-! ## non-vacuity: a concrete table and two different legal layouts -/

/-- "ab " then U+1F600 with one rich-text run and two ExtRst bytes -/
def exTable : List Entry :=
  [{ units := [0x61, 0x62, 0x20] }, { units := [0xD83D, 0xDE00], runs := some [1, 2, 3, 4], ext := some [0xAA, 0xBB] }]

/-- break after 'a' switching to 8-bit packing; break before the 2nd string; break inside ExtRst -/
def exLayoutA : List EntryLayout :=
  [{ wide0 := true, cuts := [(1, false)] }, { cutBefore := true, wide0 := true, extCuts := [1] }]

/-- no voluntary break, first string compressed -/
def exLayoutB : List EntryLayout := [{ wide0 := false }, { wide0 := true }]

example : Legal 3 exTable exLayoutA := by decide
example : Legal 2 exTable exLayoutB := by decide
example : frameSst (encodeSst 3 exTable exLayoutA) ≠ frameSst (encodeSst 2 exTable exLayoutB) := by decide
example : sstFromStream 1 (frameSst (encodeSst 3 exTable exLayoutA)) = .ok [[0x61, 0x62, 0x20], [0x1F600]] :=
  sst_roundtrip 3 exTable exLayoutA (by decide) 0
example : parseString (xlUnicodeString false [] ++ [7]) true = .ok [] := by decide
/-- workbook level: globals = BOF, CODEPAGE, the example table under layout A resp. B, EOF; one sheet with a
    LABELSST cell at (2,3) naming string 1: the two workbooks give the sheet the same range -/
def exPre : List (Nat × Bytes) := [(0x0809, [0, 6, 5, 0]), (0x0042, [0xB0, 4])]
def exSheets : Bytes :=
  frameRec 0x0809 [0, 6, 0x10, 0] [] ++ (frameRec 0x00FD (BiffWorkbook.labelSstData 2 3 0 1) [] ++ frameRec 0x000A [] [])

example (env0 : BiffCells.Env) :
    BiffWorkbook.workbookSheet (fun _ => .ok ()) env0 (BiffWorkbook.wbStream 3 exTable exLayoutA exPre [] exSheets)
        ((BiffWorkbook.wbStream 3 exTable exLayoutA exPre [] []).length + 0) =
    BiffWorkbook.workbookSheet (fun _ => .ok ()) env0 (BiffWorkbook.wbStream 2 exTable exLayoutB exPre [] exSheets)
        ((BiffWorkbook.wbStream 2 exTable exLayoutB exPre [] []).length + 0) := by
  refine (labelsst_cells_layout_independent (fun _ => .ok ()) env0 3 2 exTable exLayoutA exLayoutB (by decide) (by decide)
    exPre [] ?_ (by simp) exSheets (by unfold notCont; decide) _ _ (by decide) (by decide) ?_).2.1
  · intro p hp
    simp only [exPre, List.mem_cons, List.mem_nil_iff, or_false] at hp
    rcases hp with rfl | rfl <;> (unfold BiffWorkbook.inertRec; decide)
  · rw [sheet_offsets_exist, sheet_offsets_exist]

/-- a break between the halves of a surrogate pair, and a CONTINUE record holding its flag byte alone, are
    legal and read back as the one character -/
example : Legal 1 [{ units := [0xD83D, 0xDE00] }] [{ wide0 := true, cuts := [(1, true), (0, true)] }] := by decide
example : sstFromStream 1 (frameSst (encodeSst 1 [{ units := [0xD83D, 0xDE00] }] [{ wide0 := true, cuts := [(1, true), (0, true)] }]))
    = .ok [[0x1F600]] := sst_roundtrip 1 _ _ (by decide) 0
/-- a CONTINUE record opened after the last character is not legal -/
example : ¬ Legal 1 [{ units := [0x61] }] [{ wide0 := true, cuts := [(1, true)] }] := by decide

end Biff
