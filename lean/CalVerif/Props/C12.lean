import CalVerif.Lemmas.BiffStrings
/-! # C12 — XLS strings decode identically however records are split and characters packed
    Property theorems only (helper lemmas live in `Lemmas/BiffStrings.lean`). -/
namespace Biff

/-- `Record::skip n` consumes exactly `n` bytes when they sit in the current fragment -/
theorem skip_prefix_exact (x tail : Bytes) (cont : List Bytes) :
    skip x.length (x ++ tail) cont = .ok ⟨tail, cont⟩ := skip_prefix x tail cont

end Biff
