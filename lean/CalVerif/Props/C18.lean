import CalVerif.Lemmas.OvbaLoops
import CalVerif.Lemmas.OvbaDir
import CalVerif.Lemmas.OvbaFuel
import CalVerif.Lemmas.OvbaNoPanic
import CalVerif.Lemmas.OvbaBound
import CalVerif.Lemmas.Cfb
import CalVerif.Model.OvbaProject
import CalVerif.Spec.OvbaProject
/-! # C18 — VBA modules are extracted byte-exact from the compressed project

    Theorems about `Ovba.decompress` (model of `src/cfb.rs decompress_stream`, after the D16 fix) against the
    MS-OVBA container specification of `Spec/OvbaContainer.lean` (`Token`, `Chunk`, `expand`, `serialize`, `Valid`).
    Main result: `decompress_correct` — the decompressor inverts **every** valid container: any mixture of literal
    and copy tokens with offsets/lengths up to the position-dependent limits, overlapping copies, raw chunks, any
    number of chunks, chunks ending on or off a flag-group boundary. Hence every valid encoding of a source
    (literal-only, greedy, any tokenisation) decompresses to that source (`decompress_encoding_independent`). -/

namespace Ovba.C18
open Ovba

/-! ## the chunked copy loop = the specification's byte-by-byte copy -/

/-- `while len > offset { append the last `offset` bytes; len -= offset }` + final partial block, on the (reversed)
    output buffer, equals copying `len` bytes one at a time from `offset` bytes back (MS-OVBA Byte Copy), for every
    offset that does not reach before the buffer start (the code guards that case with an `Err`). Overlapping
    copies (`len > off`, run-length) included. -/
theorem copy_loop_correct (off len : Nat) (out : Bytes) (h1 : 1 ≤ off) (h3 : off ≤ out.length) :
    ∃ out', copyLoop off (len + 1) len out out.length = .ok (out', out.length + len) ∧
      out'.reverse = copySpec off len out.reverse ∧ out'.length = out.length + len := by
  refine ⟨copyRev off len out, ?_, copyRev_reverse off len out h1 h3, copyRev_length off len out⟩
  apply copyLoop_eq off h1 _ _ _ _ h3
  · calc len ≤ (len + 1) * 1 := by omega
      _ ≤ (len + 1) * off := Nat.mul_le_mul_left _ h1
  · omega

/-! ## the position-dependent bit split -/

/-- ⌈log₂ d⌉ -/
def clog2 (d : Nat) : Nat := if d ≤ 1 then 0 else (d - 1).log2 + 1

theorem clog2_eq (d k : Nat) (hk : 1 ≤ k) (h1 : 2 ^ (k - 1) < d) (h2 : d ≤ 2 ^ k) : clog2 d = k := by
  have hpos : 0 < 2 ^ (k - 1) := Nat.two_pow_pos _
  have hd : d - 1 ≠ 0 := by omega
  unfold clog2
  rw [if_neg (by omega)]
  have a : (d - 1).log2 < k := (Nat.log2_lt hd).2 (by omega)
  have b : ¬ (d - 1).log2 < k - 1 := fun h => by
    have := (Nat.log2_lt hd).1 h
    omega
  omega

theorem clog2_le4 (d : Nat) (h : d ≤ 16) : clog2 d ≤ 4 := by
  unfold clog2
  split
  · omega
  · have : (d - 1).log2 < 4 := (Nat.log2_lt (by omega)).2 (by omega)
    omega

/-- MS-OVBA 2.4.1.3.19.1: for every position `d` inside a chunk the code's
    `(4..16).find(|i| POWER_2[*i] >= d)` is `max(4, ⌈log₂ d⌉)` -/
theorem bitcount_spec (d : Nat) (h1 : 1 ≤ d) (h2 : d ≤ 4096) : bitCount? d = some (max 4 (clog2 d)) := by
  rw [bitCount?_eq]
  by_cases c1 : d ≤ 16
  · rw [if_pos c1]; have := clog2_le4 d c1; congr 1; omega
  rw [if_neg c1]
  by_cases c2 : d ≤ 32
  · rw [if_pos c2, clog2_eq d 5 (by omega) (by omega) (by omega)]; rfl
  rw [if_neg c2]
  by_cases c3 : d ≤ 64
  · rw [if_pos c3, clog2_eq d 6 (by omega) (by omega) (by omega)]; rfl
  rw [if_neg c3]
  by_cases c4 : d ≤ 128
  · rw [if_pos c4, clog2_eq d 7 (by omega) (by omega) (by omega)]; rfl
  rw [if_neg c4]
  by_cases c5 : d ≤ 256
  · rw [if_pos c5, clog2_eq d 8 (by omega) (by omega) (by omega)]; rfl
  rw [if_neg c5]
  by_cases c6 : d ≤ 512
  · rw [if_pos c6, clog2_eq d 9 (by omega) (by omega) (by omega)]; rfl
  rw [if_neg c6]
  by_cases c7 : d ≤ 1024
  · rw [if_pos c7, clog2_eq d 10 (by omega) (by omega) (by omega)]; rfl
  rw [if_neg c7]
  by_cases c8 : d ≤ 2048
  · rw [if_pos c8, clog2_eq d 11 (by omega) (by omega) (by omega)]; rfl
  rw [if_neg c8, if_pos h2, clog2_eq d 12 (by omega) (by omega) (by omega)]; rfl

/-- the same as a characterisation: the least `i ≥ 4` with `2^i ≥ d` -/
theorem bitcount_least (d : Nat) (h2 : d ≤ 4096) :
    ∃ bc, bitCount? d = some bc ∧ 4 ≤ bc ∧ bc ≤ 12 ∧ d ≤ 2 ^ bc ∧ (bc = 4 ∨ 2 ^ (bc - 1) < d) := by
  rw [bitCount?_eq]
  by_cases c1 : d ≤ 16
  · exact ⟨4, by rw [if_pos c1], by omega, by omega, by omega, .inl rfl⟩
  rw [if_neg c1]
  by_cases c2 : d ≤ 32
  · exact ⟨5, by rw [if_pos c2], by omega, by omega, by omega, .inr (by omega)⟩
  rw [if_neg c2]
  by_cases c3 : d ≤ 64
  · exact ⟨6, by rw [if_pos c3], by omega, by omega, by omega, .inr (by omega)⟩
  rw [if_neg c3]
  by_cases c4 : d ≤ 128
  · exact ⟨7, by rw [if_pos c4], by omega, by omega, by omega, .inr (by omega)⟩
  rw [if_neg c4]
  by_cases c5 : d ≤ 256
  · exact ⟨8, by rw [if_pos c5], by omega, by omega, by omega, .inr (by omega)⟩
  rw [if_neg c5]
  by_cases c6 : d ≤ 512
  · exact ⟨9, by rw [if_pos c6], by omega, by omega, by omega, .inr (by omega)⟩
  rw [if_neg c6]
  by_cases c7 : d ≤ 1024
  · exact ⟨10, by rw [if_pos c7], by omega, by omega, by omega, .inr (by omega)⟩
  rw [if_neg c7]
  by_cases c8 : d ≤ 2048
  · exact ⟨11, by rw [if_pos c8], by omega, by omega, by omega, .inr (by omega)⟩
  rw [if_neg c8, if_pos h2]
  exact ⟨12, rfl, by omega, by omega, by omega, .inr (by omega)⟩

/-- A valid copy token survives packing by the spec and unpacking by the code's mask/shift expressions, at every
    position `d` of a chunk (all 9 bit splits 4/12 … 12/4): the 16-bit word fits, and
    `(token & len_mask) + 3 = len`, `((token & !len_mask) >> (16 - bit_count)) + 1 = off`. -/
theorem copy_token_roundtrip (d off len : Nat) (h1 : 1 ≤ off) (h2 : off ≤ d) (h3 : 3 ≤ len) (h4 : len ≤ maxLen d)
    (h5 : d ≤ 4096) :
    ∃ bc, bitCount? d = some bc ∧ packCopy d off len < 65536 ∧
      (packCopy d off len &&& (0xFFFF >>> bc)) + 3 = len ∧
      ((packCopy d off len &&& (0xFFFF ^^^ (0xFFFF >>> bc))) >>> (16 - bc)) + 1 = off := by
  obtain ⟨bc, hbc, hb4, hb12, hw, hlen, hoff⟩ := pack_facts d off len h1 h2 h3 h4 h5
  obtain ⟨e1, e2⟩ := unpack_eq (packCopy d off len) bc hw hb4 (by omega)
  exact ⟨bc, hbc, hw, by rw [e1, hlen], by rw [e2, hoff]⟩

/-! ## tokens, chunks, containers -/

/-- one literal token advances input by 1 byte, output by that byte, `chunk_len` by 1 -/
theorem token_step_literal (size n flags clen olen : Nat) (b : UInt8) (r cur prev : Bytes)
    (hc : clen ≤ size) (hf : flags % 2 = 0) :
    tokenLoop size prev.length (n + 1) flags ⟨b :: r, cur.reverse ++ prev, olen, clen⟩ =
      tokenLoop size prev.length n (flags / 2) ⟨r, (applyToken cur (.lit b)).reverse ++ prev, olen + 1, clen + 1⟩ :=
  token_step_lit size n flags clen olen b r cur prev hc hf

/-- one valid copy token (at position `cur.length` of the chunk, `prev` = output of earlier chunks) advances input
    by 2 bytes, output by the spec's byte-by-byte copy, `chunk_len` by 2 -/
theorem token_step_copytoken (size n flags clen olen off len : Nat) (r cur prev : Bytes)
    (ho : olen = cur.length + prev.length)
    (hc : clen ≤ size) (hf : flags % 2 = 1) (hv : validToken cur.length (.copy off len) = true) :
    tokenLoop size prev.length (n + 1) flags ⟨serToken cur.length (.copy off len) ++ r, cur.reverse ++ prev, olen, clen⟩ =
      tokenLoop size prev.length n (flags / 2)
        ⟨r, (applyToken cur (.copy off len)).reverse ++ prev, olen + len, clen + 2⟩ :=
  token_step_copy size n flags clen olen off len r cur prev ho hc hf hv

/-- decoding a serialized compressed chunk from the state “output so far = `prev` (reversed)” appends exactly
    that chunk's expansion and leaves the cursor right behind the chunk — whatever follows (`tail`), in particular
    when the chunk's token count is a multiple of 8 and another chunk header follows (ledger D16) -/
theorem chunk_correct (toks : List Token) (tail prev : Bytes) (fuel : Nat)
    (hd : decodableChunk (.compressed toks) = true) :
    mainLoop (fuel + 1) (serChunk (.compressed toks) ++ tail) prev prev.length =
      mainLoop fuel tail ((expandChunk (.compressed toks)).reverse ++ prev)
        (((expandChunk (.compressed toks)).reverse ++ prev).length) := by
  rw [compressed_chunk_step toks tail prev fuel prev.length rfl hd]
  congr 1
  simp [expandChunk_length]; omega

theorem raw_chunk_correct (bs tail prev : Bytes) (fuel : Nat) (hd : decodableChunk (.raw bs) = true) :
    mainLoop (fuel + 1) (serChunk (.raw bs) ++ tail) prev prev.length =
      mainLoop fuel tail (bs.reverse ++ prev) ((bs.reverse ++ prev).length) := by
  rw [raw_chunk_step bs tail prev fuel prev.length hd]
  simp only [expandChunk, chunkOutLen]
  congr 1
  simp; omega

/-- strongest form: every container whose chunks are individually decodable (no condition on how many bytes a
    non-final chunk stands for) decompresses to its expansion -/
theorem decompress_correct_decodable (cs : List Chunk) (h : Decodable cs) :
    decompress (container cs) = .ok (expand cs) :=
  decompress_container cs h

theorem valid_decodable : ∀ (cs : List Chunk), Valid cs → Decodable cs
  | [], _ => by intro c hc; simp at hc
  | [c], h => by
    intro c' hc'
    simp only [List.mem_singleton] at hc'
    subst hc'
    simpa [Valid, validChunks] using h
  | c :: c2 :: cs, h => by
    simp only [Valid, validChunks, Bool.and_eq_true, decide_eq_true_eq] at h
    intro c' hc'
    rcases List.mem_cons.1 hc' with rfl | hc'
    · exact h.1.1
    · exact valid_decodable (c2 :: cs) h.2 c' hc'

/-- **C18 main theorem.** Decompression inverts every valid compressed container. -/
theorem decompress_correct (cs : List Chunk) (h : Valid cs) : decompress (0x01 :: serialize cs) = .ok (expand cs) :=
  decompress_container cs (valid_decodable cs h)

/-- every valid encoding of the same source decompresses to the same bytes -/
theorem decompress_encoding_independent (cs cs' : List Chunk) (h : Valid cs) (h' : Valid cs')
    (he : expand cs = expand cs') : decompress (container cs) = decompress (container cs') := by
  rw [container, container, decompress_correct cs h, decompress_correct cs' h', he]

/-- the byte count used by `Valid` is the length of the expansion -/
theorem chunk_out_len (c : Chunk) : (expandChunk c).length = chunkOutLen c := expandChunk_length c

/-- non-vacuity: a two-chunk container whose first chunk has exactly 8 tokens (7 literals and an overlapping copy
    of 4089 bytes from 7 back: the D16 shape) followed by a chunk with literals, short and overlapping copies -/
def sample : List Chunk :=
  [.compressed [.lit 97, .lit 98, .lit 99, .lit 100, .lit 101, .lit 102, .lit 103, .copy 7 4089],
   .compressed [.lit 1, .lit 2, .lit 3, .copy 3 9, .copy 1 5, .lit 4, .copy 18 18, .lit 9, .lit 9, .copy 2 3]]

example : Valid sample := by decide
example : decompress (container sample) = .ok (expand sample) := decompress_correct sample (by decide)
example : (serialize sample).length = 30 := by decide

/-- The model never runs out of loop budget: on **every** byte string `decompress` returns bytes, returns `Err`, or
    panics (termination of the three nested loops of `decompress_stream`; a C06 obligation). -/
theorem decompress_never_out_of_fuel (s : Bytes) : decompress s ≠ .outOfFuel := decompress_fuel s

/-- **C06 for `decompress_stream`** (after the D34 robustness fix, /repo 3510bc7): no byte string makes the model
    panic — empty input, truncated headers and tokens, wrong chunk signatures, short raw chunks and copy offsets
    reaching before the start of the output are all `Err`. -/
theorem decompress_no_panic (s : Bytes) (m : String) : decompress s ≠ .panic m := (decompress_np s).ne m

/-- every input is answered by bytes or by an error -/
theorem decompress_total (s : Bytes) : (∃ b, decompress s = .ok b) ∨ (∃ e, decompress s = .err e) := by
  cases h : decompress s with
  | ok b => exact .inl ⟨b, rfl⟩
  | err e => exact .inr ⟨e, rfl⟩
  | panic m => exact absurd h (decompress_no_panic s m)
  | outOfFuel => exact absurd h (decompress_never_out_of_fuel s)

/-- **C06 for the `dir` walk** (after /repo a92e839): `read_dir_information` + `Reference::from_stream` +
    `read_modules` never panic, whatever the bytes of the decompressed `dir` stream -/
theorem dirWalk_no_panic (s : Bytes) (m : String) : dirWalk s ≠ .panic m := (dirWalk_np s).ne m

/-- and neither does `VbaProject::from_cfb` (model), whatever the streams of the compound file contain -/
theorem project_no_panic (d : Option Bytes) (lookup : Bytes → Option Bytes) (m : String) :
    project d lookup ≠ .panic m := (project_np d lookup).ne m

/-- **Allocation bound (C06).** Whatever the input, the decompressed buffer is at most 2049 times as long as the
    input: a copy token (2 input bytes) yields at most 4098 bytes (12-bit length field + 3), a literal 1 byte for
    1 byte, a raw chunk 4096 bytes for 4098. (The true maximum is about 820: one maximal copy per 5-byte chunk;
    2049 is the per-token constant, provable without tracking the position inside the chunk.) -/
theorem decompress_output_bound (s out : Bytes) (h : decompress s = .ok out) : out.length ≤ 2049 * s.length :=
  decompress_out_le s out h

/-! ## ledger D16: the loop before the fix (history) -/

/-- the `'chunk` loop as it was before the D16 fix: `if i >= s.len() { break; }` only -/
def chunkLoopPre (size start : Nat) : Nat → St → Res St
  | 0, _ => .outOfFuel
  | fuel + 1, st =>
    match st.rest with
    | [] => .ok st
    | b :: r =>
      match tokenLoop size start 8 b.toNat { rest := r, out := st.out, olen := st.olen, clen := st.clen + 1 } with
      | .ok (st', true) => .ok st'
      | .ok (st', false) => chunkLoopPre size start fuel st'
      | .err e => .err e
      | .panic p => .panic p
      | .outOfFuel => .outOfFuel

def mainLoopPre : Nat → Bytes → Bytes → Nat → Res Bytes
  | 0, _, _, _ => .outOfFuel
  | fuel + 1, rest, out, olen =>
    match rest with
    | [] => .ok out
    | [_] => .err "invalid"
    | lo :: hi :: r =>
      let header := u16le lo hi
      let size := header &&& 0x0FFF
      if (header &&& 0x7000) >>> 12 ≠ 3 then .err "invalid"
      else if (header &&& 0x8000) >>> 15 = 0 then
        if r.length < 4096 then .err "invalid"
        else mainLoopPre fuel (r.drop 4096) ((r.take 4096).reverse ++ out) (olen + 4096)
      else
        match chunkLoopPre size olen (r.length + 1) { rest := r, out := out, olen := olen, clen := 0 } with
        | .ok st => mainLoopPre fuel st.rest st.out st.olen
        | .err e => .err e
        | .panic p => .panic p
        | .outOfFuel => .outOfFuel

/-- two chunks, the first with exactly 8 (literal) tokens -/
def d16Witness : List Chunk :=
  [.compressed [.lit 97, .lit 98, .lit 99, .lit 100, .lit 101, .lit 102, .lit 103, .lit 104], .compressed [.lit 120]]

/-- D16, third case of DESIGN §4 (kept as history): on a decodable container whose non-final chunk ends on a
    flag-group boundary the loop as it was before the D16 fix takes the low byte of the next chunk header for a flag
    byte and then fails the chunk-signature test (a panic at the time, an `Err` since the D34 fix), while the fixed
    loop (the model, by `decompress_correct_decodable`) returns the expansion. -/
theorem d16_prefix_loop_fails :
    mainLoopPre 20 (serialize d16Witness) [] 0 = .err "invalid" ∧
    decompress (container d16Witness) = .ok (expand d16Witness) := by
  refine ⟨by decide, decompress_correct_decodable d16Witness (by unfold Decodable; decide)⟩

/-! ## the `dir` stream walk and the project -/

/-- **dir walk.** On the serialized `dir` stream of any well-formed project description the walk returns the
    project's code page, one reference per REFERENCE record (by name, in order, with the description/path the
    libids determine), and exactly the MODULE records in order with their names, stream names and text offsets. -/
theorem dir_walk (p : DirSpec) (hw : p.wf = true) :
    dirWalk (serDir p) = .ok (p.codepage, p.refs.map refResult, p.modules.map toModule) := by
  have hrefs : p.refs.all RefSpec.wf = true := by
    simp only [DirSpec.wf, Bool.and_eq_true] at hw
    exact hw.1.1.1.2
  rw [dirWalk_ser p hw, finalRefs_named p.refs [] emptyRef hrefs]
  simp [pushIfNamed, emptyRef]

/-- the module list is the list of MODULE records, by name / stream name / offset -/
theorem dir_walk_modules (p : DirSpec) (hw : p.wf = true) :
    ∃ cp refs mods, dirWalk (serDir p) = .ok (cp, refs, mods) ∧
      mods.map (·.name) = p.modules.map (·.name) ∧
      mods.map (·.streamName) = p.modules.map (·.streamName) ∧
      mods.map (·.textOffset) = p.modules.map (·.offset) ∧
      refs.map (·.name) = p.refs.map (·.name) := by
  refine ⟨_, _, _, dir_walk p hw, ?_, ?_, ?_, ?_⟩
  · simp [toModule, Function.comp_def]
  · simp [toModule, Function.comp_def]
  · simp [toModule, Function.comp_def]
  · simp [refResult_name, Function.comp_def]

theorem readModuleStreams_correct (lookup : Bytes → Option Bytes) (content : ModuleSpec → List Chunk) :
    ∀ (ms : List ModuleSpec),
    (∀ m ∈ ms, ∃ junk, junk.length = m.offset ∧ lookup m.streamName = some (junk ++ container (content m)) ∧
      Valid (content m)) →
    readModuleStreams lookup (ms.map toModule) = .ok (ms.map fun m => (m.name, expand (content m)))
  | [], _ => rfl
  | m :: ms, h => by
    obtain ⟨junk, hj, hl, hv⟩ := h m (by simp)
    simp only [List.map_cons, readModuleStreams, toModule, hl]
    rw [if_neg (by simp; omega)]
    have hdrop : (junk ++ container (content m)).drop m.offset = container (content m) := by
      rw [← hj]; simp
    rw [hdrop, container, decompress_correct _ hv]
    simp only [Res.bind_ok]
    have ih := readModuleStreams_correct lookup content ms (fun m' hm' => h m' (by simp [hm']))
    rw [ih]
    simp

/-- **C18, project level (model).** If the compound file's `dir` stream is any valid container of the serialized
    project description, and every module's stream holds, from the recorded offset on, any valid container, then
    `VbaProject::from_cfb` yields the project's code page, its references, and for every MODULE record, in order,
    its name with exactly the bytes its container stands for. -/
theorem project_correct (p : DirSpec) (dirCs : List Chunk) (lookup : Bytes → Option Bytes)
    (content : ModuleSpec → List Chunk) (hw : p.wf = true) (hd : Valid dirCs) (he : expand dirCs = serDir p)
    (hs : ∀ m ∈ p.modules, ∃ junk, junk.length = m.offset ∧
      lookup m.streamName = some (junk ++ container (content m)) ∧ Valid (content m)) :
    project (some (container dirCs)) lookup =
      .ok (p.codepage, p.refs.map refResult, p.modules.map fun m => (m.name, expand (content m))) := by
  simp only [project]
  rw [container, decompress_correct _ hd, he]
  simp only [Res.bind_ok]
  rw [dir_walk p hw]
  simp only [Res.bind_ok]
  rw [readModuleStreams_correct lookup content p.modules hs]
  simp

/-- non-vacuity of `dir_walk`: a project with a compat record, three kinds of references and two modules -/
def sampleDir : DirSpec :=
  { sysKind := 1, compat := some 3, lcid := 0x409, lcidInvoke := 0x409, codepage := 1252,
    name := [86, 66], doc := [], docUnicode := [], help1 := [], help2 := [], helpContext := 0, libFlags := 0,
    versionMajor := 7, versionMinor := 1, constants := [], constantsUnicode := [],
    refs := [
      { name := [115], nameUnicode := [115, 0], body := .registered [42, 35, 112, 35, 100] },
      { name := [116], nameUnicode := [116, 0], body := .project [42, 92, 67, 120] [42, 92, 67, 121] 1 2 },
      { name := [117], nameUnicode := [117, 0],
        body := .control (some [35, 35]) [97, 35, 98, 35, 99] (some ([117], [117, 0])) [] (List.replicate 16 0) 9 }],
    cookie := 0xFFFF,
    modules := [
      { name := [77, 49], nameUnicode := [77, 0, 49, 0], streamName := [77, 49], streamNameUnicode := [77, 0, 49, 0],
        doc := [], docUnicode := [], offset := 733, helpContext := 0, cookie := 0xFFFF,
        document := false, readOnly := false, priv := true },
      { name := [83], nameUnicode := [83, 0], streamName := [83, 50], streamNameUnicode := [83, 0, 50, 0],
        doc := [100], docUnicode := [100, 0], offset := 0, helpContext := 0, cookie := 0xFFFF,
        document := true, readOnly := true, priv := false }] }

example : sampleDir.wf = true := by decide +kernel
example : (serDir sampleDir).length = 508 := by decide +kernel

/-! ## C13 ∘ C18: the project read out of a compound file -/

/-- **C18 end to end (model).** Take any well-formed project description `p`, any valid container `dirCs` of its
    serialized `dir` stream, for every module any valid container `content m` of its source preceded by
    `m.offset` arbitrary bytes, and lay these streams out as a compound file by **any** valid layout `L`
    (sector size, fragmentation, FAT/DIFAT placement, mini stream, directory order …). Then `VbaProject::new` on
    that file returns the project's code page, its references and, for every MODULE record in order, the module
    name with exactly the source bytes — byte-exact from the compressed project, whatever the container layout and
    whatever `len` is passed. `decodeName` is the (trusted) text decoder applied to stream names; the statement
    holds for every decoder, the layout's validity (`Cfb.Valid`: distinct, non-empty stream names of at most 31
    UTF-16 units) being stated on the decoded names. The byte-level restrictions of `Ovba.project` (libid parsing
    on ASCII-transparent code pages) are those of the model, see `Model/Ovba.lean`. -/
theorem vba_from_container (p : DirSpec) (dirCs : List Chunk) (content : ModuleSpec → List Chunk)
    (junk : ModuleSpec → Bytes) (decodeName : Bytes → List Char) (L : Cfb.Layout) (len : Nat)
    (hw : p.wf = true) (hd : Valid dirCs) (he : expand dirCs = serDir p)
    (hc : ∀ m ∈ p.modules, Valid (content m) ∧ (junk m).length = m.offset)
    (hL : Cfb.Valid (projectStreams p dirCs content junk decodeName) L) :
    vbaProjectNew decodeName (Cfb.layoutCfb (projectStreams p dirCs content junk decodeName) L) len =
      .ok { codepage := p.codepage, references := p.refs.map refResult,
            modules := p.modules.map fun m => (m.name, expand (content m)) } := by
  have hv := Cfb.valid_unpack _ _ hL
  obtain ⟨c, rd, hnew, hg⟩ := Cfb.new_layout_good _ _ hv
  have hlook := fun st hst => Cfb.lookupOf_stream _ L hv c rd hg st hst
  unfold vbaProjectNew
  rw [Cfb.new_len_independent _ len (Cfb.layoutCfb (projectStreams p dirCs content junk decodeName) L).length, hnew]
  simp only [Res.bind_ok]
  have hdir : Cfb.lookupOf c rd "dir".toList = some (container dirCs) :=
    hlook { name := "dir".toList, data := container dirCs } (by simp [projectStreams])
  rw [hdir]
  rw [project_correct p dirCs (fun n => Cfb.lookupOf c rd (decodeName n)) content hw hd he]
  · simp
  · intro m hm
    refine ⟨junk m, (hc m hm).2, ?_, (hc m hm).1⟩
    exact hlook { name := decodeName m.streamName, data := junk m ++ container (content m) }
      (by simp only [projectStreams, List.mem_cons, List.mem_map]; exact .inr ⟨m, hm, rfl⟩)

/-! ### non-vacuity of `vba_from_container` -/

def tinyDir : DirSpec :=
  { sysKind := 1, compat := none, lcid := 0x409, lcidInvoke := 0x409, codepage := 1252,
    name := [86], doc := [], docUnicode := [], help1 := [], help2 := [], helpContext := 0, libFlags := 0,
    versionMajor := 1, versionMinor := 0, constants := [], constantsUnicode := [],
    refs := [], cookie := 0xFFFF,
    modules := [
      { name := [77, 49], nameUnicode := [77, 0, 49, 0], streamName := [77, 49], streamNameUnicode := [77, 0, 49, 0],
        doc := [], docUnicode := [], offset := 3, helpContext := 0, cookie := 0xFFFF,
        document := false, readOnly := false, priv := false }] }

def tinyDirCs : List Chunk := [.compressed ((serDir tinyDir).map Token.lit)]
def tinyContent (_ : ModuleSpec) : List Chunk := [.compressed [.lit 83, .lit 117, .lit 98, .copy 3 9]]
def tinyJunk (_ : ModuleSpec) : Bytes := [1, 2, 3]
def asciiName (b : Bytes) : List Char := b.map fun x => Char.ofNat x.toNat
def tinyStreams := projectStreams tinyDir tinyDirCs tinyContent tinyJunk asciiName

/-- a fragmented version-3 layout: FAT in sector 1, mini stream / directory / mini FAT out of order, one free
    sector; the `dir` stream in mini sectors 5,0,2,1, the module stream in mini sector 3, mini sector 4 free;
    directory order module / unused / dir -/
def tinyLayout : Cfb.Layout :=
  { v4 := false
    main := { owner := #[.data 2 0, .fat 0, .free, .data 0 0, .data 1 0]
              chains := #[#[3], #[4], #[0], #[], #[]] }
    fatIds := #[1]
    difIds := #[]
    mini := { owner := #[.data 0 1, .data 0 3, .data 0 2, .data 1 0, .free, .data 0 0], chains := #[#[5, 0, 2, 1], #[3]] }
    dirOrder := [some 1, none, some 0]
    fill := 0x5A }

theorem tinyValid : Cfb.Valid tinyStreams tinyLayout := by decide +kernel

/-- the hypotheses of `vba_from_container` are satisfiable: a project with one module in a fragmented container -/
example : vbaProjectNew asciiName (Cfb.layoutCfb tinyStreams tinyLayout) 0 =
    .ok { codepage := 1252, references := [], modules := [([77, 49], [83, 117, 98, 83, 117, 98, 83, 117, 98, 83, 117, 98])] } := by
  have h := vba_from_container tinyDir tinyDirCs tinyContent tinyJunk asciiName tinyLayout 0
    (by decide +kernel) (by decide +kernel) (by decide +kernel)
    (by intro m hm; simp only [tinyDir, List.mem_singleton] at hm; subst hm
        exact ⟨by unfold tinyContent; decide +kernel, rfl⟩) tinyValid
  rw [show tinyStreams = projectStreams tinyDir tinyDirCs tinyContent tinyJunk asciiName from rfl, h]
  decide +kernel

/-! ## the text of a module -/

theorem lookup_reverse_map {α β : Type} [BEq α] [LawfulBEq α] (l : List (α × β)) (k : α) (v : β)
    (hmem : (k, v) ∈ l) (huniq : ∀ v', (k, v') ∈ l → v' = v) : l.reverse.lookup k = some v := by
  have : ∀ (r : List (α × β)), (k, v) ∈ r → (∀ v', (k, v') ∈ r → v' = v) → r.lookup k = some v := by
    intro r
    induction r with
    | nil => intro h; simp at h
    | cons x xs ih =>
      intro hm hu
      obtain ⟨a, b⟩ := x
      by_cases hk : k = a
      · subst hk
        have := hu b (by simp)
        subst this
        simp [List.lookup]
      · have hne : (k == a) = false := by simpa using hk
        simp only [List.lookup, hne]
        apply ih
        · rcases List.mem_cons.1 hm with h | h
          · cases h; exact absurd rfl hk
          · exact h
        · intro v' hv'; exact hu v' (by simp [hv'])
  exact this l.reverse (by simpa using hmem) (by intro v' hv'; exact huniq v' (by simpa using hv'))

/-- **Raw content and text of a module.** For the project opened by `vba_from_container`, `get_module_raw` of a
    module whose name occurs once gives exactly its source bytes, and `get_module` gives those bytes decoded by the
    encoding object selected from the PROJECTCODEPAGE record — `decodeWith (encodingOf p.codepage)`, nothing else
    (no other code page, no byte-order-mark switch: the decoder call is `decode_without_bom_handling`). -/
theorem get_module_text (decodeWith : String → Bytes → String) (p : DirSpec) (content : ModuleSpec → List Chunk)
    (m : ModuleSpec) (hm : m ∈ p.modules) (hu : ∀ m' ∈ p.modules, m'.name = m.name → m' = m) (hw : p.wf = true) :
    let vp : VbaProjectSt := { codepage := p.codepage, references := p.refs.map refResult,
                                modules := p.modules.map fun m => (m.name, expand (content m)) }
    getModuleRaw vp m.name = .ok (expand (content m)) ∧
    ∃ enc, encodingOf p.codepage = some enc ∧ getModule decodeWith vp m.name = .ok (decodeWith enc (expand (content m))) := by
  intro vp
  have hraw : getModuleRaw vp m.name = .ok (expand (content m)) := by
    unfold getModuleRaw
    rw [lookup_reverse_map (vp.modules) m.name (expand (content m))]
    · simp only [vp, List.mem_map]; exact ⟨m, hm, rfl⟩
    · intro v' hv'
      simp only [vp, List.mem_map, Prod.mk.injEq] at hv'
      obtain ⟨m', hm', hn, rfl⟩ := hv'
      rw [hu m' hm' hn]
  refine ⟨hraw, ?_⟩
  have hk : knownCodepages.contains p.codepage = true := by
    simp only [DirSpec.wf, Bool.and_eq_true] at hw
    exact hw.1.1.1.1.1.1.1.1.1.1.1.1.1.1.1.2
  have henc : ∃ enc, encodingOf p.codepage = some enc := by
    have : ∀ cp ∈ knownCodepages, (encodingOf cp).isSome = true := by decide
    have h := this p.codepage (by simpa using hk)
    exact Option.isSome_iff_exists.1 h
  obtain ⟨enc, henc⟩ := henc
  refine ⟨enc, henc, ?_⟩
  unfold getModule
  rw [hraw]
  simp only [Res.bind_ok, vp, henc]

/-- the encoding table: what `XlsEncoding::from_codepage` selects (transcribed table, swept against the code) -/
theorem encoding_selection :
    encodingOf 1200 = some "UTF-16LE" ∧ encodingOf 65001 = some "UTF-8" ∧ encodingOf 1252 = some "windows-1252" ∧
    encodingOf 1251 = some "windows-1251" ∧ encodingOf 932 = some "Shift_JIS" ∧ encodingOf 0 = none ∧
    encodingOf 437 = none ∧
    (∀ cp, knownCodepages.contains cp = (encodingOf cp).isSome) := by
  refine ⟨by decide, by decide, by decide, by decide, by decide, by decide, by decide, ?_⟩
  intro cp
  by_cases h : cp ∈ knownCodepages
  · have : ∀ c ∈ knownCodepages, (encodingOf c).isSome = true := by decide
    rw [this cp h]; simpa using h
  · have hn : knownCodepages.contains cp = false := by simpa using h
    rw [hn]
    symm
    unfold encodingOf
    rw [Option.isSome_map]
    cases hf : codepageTable.find? (fun x => x.1 == cp) with
    | none => rfl
    | some x =>
      exfalso
      have h1 := List.find?_some hf
      have h2 := List.mem_of_find?_eq_some hf
      have : ∀ y ∈ codepageTable, y.1 ∈ knownCodepages := by decide
      have := this x h2
      rw [show x.1 = cp by simpa using h1] at this
      exact h this

end Ovba.C18
