import CalVerif.Prim.Wire
import CalVerif.Model.Biff
import CalVerif.Spec.BiffEnc
/-! Driver for C02 (BIFF8 cell records). One request line → one reply line.

    rk <w>                                  → `I<int>` | `F<16 hex>`            (`rkNum`: `v as f64` = `De.intToF64`, `/ 100.0` native)
    rkspec <w>                              → same, through `rkSpec`
    sweep <start> <count> <stride>          → FNV-64 (decimal) over the canonical 9-byte forms of
                                              `rkNum (start + i·stride)`, i < count
    rks <w> <w> …                           → the same checksum over the listed words
    rec <fmts> <is1904> <sst> <typ> <hex>   → one record through `step` from the initial state:
                                              `ok <cells>` | `err:<class>` | `panic:<fn>` | `fuel`
    dec <fmts> <is1904> <sst> <hex>         → a worksheet substream through `sheetRange`:
                                              `ok <range>` | `err:<class>` | `panic:<fn>` | `fuel`
    enc <sst> <cells>                       → hex of `substream env S λ` (BOF, cell records, EOF)
    wb <fmts> <is1904> <sst> <offsets> <hex> → the sheet part of `parse_workbook` with its workbook-wide scan counter
                                              (`workbookSheets`; offsets = lbPlyPos values joined by `,`): `ok <range>|<range>|…`
                                              (as `ok #<FNV-64 of that text>:<sheets>` when longer than 4000 characters)
                                              | `err:<class>` | `panic:<fn>` | `fuel`
    frame <hex>                             → `items`: `<typ>=<hex>[+<hex>…]` per record, `;`-separated, `!<class>` for a failure

    fmts: one letter per XF (`o` other, `d` date-time, `t` time-delta) or `-`; sst: strings separated by `/`
    (scalar values in hex joined by `.`, `_` = empty string) or `-` for no table.
    value: `I<int>` `F<16 hex>` `S<scalars>` `B0|B1` `E<Kind>` `D<16 hex>/<d|t>/<0|1>`
    range: `-` (empty) or `sr,sc,er,ec` followed by ` ` and the non-empty cells `r:c:value` joined by `,`
    enc cell: `row,col,xf,join,<val>,<enc>,<before>`; val `n<16 hex>` `s<scalars>` `b0|b1` `e<0..7>`;
      enc `N` `K<word>` `L0|L1` `T<idx>` `B` `F<wide><blank3>/<rgce hex>/<between>`;
      before/between: `-` or `<id>=<hex>` joined by `+`; cells joined by `;`, `-` = no cell -/

open Biff BiffCells

def nativeOps : FOps where
  div100 := fun b =>
    -- `Float.toBits` canonicalises NaNs; the hardware division keeps sign and payload and sets the quiet bit
    if b / 4503599627370496 % 2048 = 2047 ∧ b % 4503599627370496 ≠ 0 then b ||| 0x0008000000000000
    else (Float.ofBits (UInt64.ofNat b) / 100.0).toBits.toNat

def hex16 (n : Nat) : String :=
  String.ofList ((List.range 16).map fun i => Wire.hexDigit (n / 16 ^ (15 - i) % 16))

def hexNat (n : Nat) : String := String.ofList (Nat.toDigits 16 n)

def showScalars (s : List Nat) : String := ".".intercalate (s.map hexNat)

def kindName : ErrKind → String
  | .null => "Null" | .div0 => "Div0" | .value => "Value" | .ref => "Ref"
  | .name => "Name" | .num => "Num" | .na => "NA" | .gettingData => "GettingData"

def showVal : Val → String
  | .empty => "_"
  | .int v => s!"I{v}"
  | .float b => s!"F{hex16 b}"
  | .str s => s!"S{showScalars s}"
  | .bool b => if b then "B1" else "B0"
  | .error k => s!"E{kindName k}"
  | .dt b k f => s!"D{hex16 b}/{match k with | Formats.DtKind.dateTime => "d" | Formats.DtKind.timeDelta => "t"}/{if f then 1 else 0}"

def showNum : Num → String
  | .int v => s!"I{v}"
  | .float b => s!"F{hex16 b}"

def showCells (cs : List Cell) : String :=
  ",".intercalate (cs.map fun c => s!"{c.1}:{c.2.1}:{showVal c.2.2}")

/-- the non-empty cells with absolute positions (array loop: the dense vector may hold 2^21 cells) -/
def usedAbs (r : Range.Rng Val) : List Cell := Id.run do
  let arr := r.inner.toArray
  let w := r.width
  let mut out : Array Cell := #[]
  for i in [0:arr.size] do
    let v := arr[i]!
    if v ≠ Val.empty then out := out.push (i / w + r.sr, i % w + r.sc, v)
  return out.toList

def showRange (r : Range.Rng Val) : String :=
  if r.inner.length = 0 then "-"
  else s!"{r.sr},{r.sc},{r.er},{r.ec} " ++ showCells (usedAbs r)

def showRes {α : Type} (f : α → String) : Res α → String
  | .ok a => "ok " ++ f a
  | .err e => "err:" ++ e
  | .panic s => "panic:" ++ (s.splitOn ":").head!
  | .outOfFuel => "fuel"

/-! ### checksums -/

def fnvByte (h : UInt64) (b : UInt64) : UInt64 := (h ^^^ b) * 0x100000001b3

def fnvU64 (h : UInt64) (v : UInt64) : UInt64 := Id.run do
  let mut h := h
  let mut v := v
  for _ in [0:8] do
    h := fnvByte h (v &&& 0xFF)
    v := v >>> 8
  return h

def fnvNum (h : UInt64) : Num → UInt64
  | .int v => fnvU64 (fnvByte h 0) (UInt64.ofNat (v % 18446744073709551616).toNat)
  | .float b => fnvU64 (fnvByte h 1) (UInt64.ofNat b)

def sweep (start count stride : Nat) : UInt64 := Id.run do
  let mut h : UInt64 := 0xcbf29ce484222325
  let mut w := start
  for _ in [0:count] do
    h := fnvNum h (rkNum nativeOps (w % 4294967296))
    w := w + stride
  return h

/-! ### parsing the wire forms -/

def parseHexNat (s : String) : Option Nat :=
  s.toList.foldlM (fun acc c => (Wire.hexVal c).map (acc * 16 + ·)) 0

def parseScalars (s : String) : Option (List Nat) :=
  if s.isEmpty then some [] else (s.splitOn ".").mapM parseHexNat

def parseSst (s : String) : Option (List (List Nat)) :=
  if s = "-" then some []
  else (s.splitOn "/").mapM fun x => if x = "_" then some [] else parseScalars x

def parseFmts (s : String) : Option (List CellFormat) :=
  if s = "-" then some []
  else s.toList.mapM fun c =>
    if c = 'o' then some CellFormat.other else if c = 'd' then some CellFormat.dateTime else if c = 't' then some CellFormat.timeDelta else none

def mkEnv (fmts : List CellFormat) (is1904 : Bool) (sst : List (List Nat)) : Env :=
  { ops := nativeOps, fmts := fmts, is1904 := is1904, strings := sst }

def parseJunk (s : String) : Option (List Rec) :=
  if s = "-" then some []
  else (s.splitOn "+").mapM fun x =>
    match x.splitOn "=" with
    | [id, hx] => do
      let t ← id.toNat?
      let d ← Wire.bytesOfHex hx
      pure (⟨t, d, []⟩ : Rec)
    | _ => none

def kindOfIdx : Nat → Option ErrKind
  | 0 => some .null | 1 => some .div0 | 2 => some .value | 3 => some .ref
  | 4 => some .name | 5 => some .num | 6 => some .na | 7 => some .gettingData
  | _ => none

def parseLVal (s : String) : Option LVal :=
  match s.toList with
  | 'n' :: rest => (parseHexNat (String.ofList rest)).map LVal.num
  | 's' :: rest => (parseScalars (String.ofList rest)).map LVal.str
  | ['b', '0'] => some (.bool false)
  | ['b', '1'] => some (.bool true)
  | 'e' :: rest => (String.ofList rest).toNat? >>= kindOfIdx |>.map LVal.err
  | _ => none

def parseEnc (s : String) : Option Enc :=
  match s.toList with
  | ['N'] => some (.num .number)
  | 'K' :: rest => (String.ofList rest).toNat?.map fun w => .num (.rk w)
  | ['L', '0'] => some (.label false)
  | ['L', '1'] => some (.label true)
  | 'T' :: rest => (String.ofList rest).toNat?.map Enc.labelSst
  | ['B'] => some .boolerr
  | 'F' :: w :: b :: '/' :: rest =>
    match (String.ofList rest).splitOn "/" with
    | [rg, btw] => do
      let rgce ← Wire.bytesOfHex rg
      let between ← parseJunk btw
      pure (.formula rgce (w = '1') between (b = '1'))
    | _ => none
  | _ => none

def parseCell (s : String) : Option (LCell × Lay) :=
  match s.splitOn "," with
  | [r, c, xf, j, v, e, jk] => do
    let r ← r.toNat?
    let c ← c.toNat?
    let xf ← xf.toNat?
    let v ← parseLVal v
    let e ← parseEnc e
    let jk ← parseJunk jk
    pure (⟨r, c, v⟩, { enc := e, xf := xf, join := j = "1", before := jk })
  | _ => none

def parseCells (s : String) : Option (List (LCell × Lay)) :=
  if s = "-" then some [] else (s.splitOn ";").mapM parseCell

def showItems (its : List Item) : String :=
  ";".intercalate (its.map fun
    | .record r => s!"{r.typ}=" ++ "+".intercalate ((r.data :: r.cont).map Wire.hexOrDash)
    | .fail e => "!" ++ (match e with | .err m => m | .panic _ => "panic" | .outOfFuel => "fuel" | .ok _ => "ok"))

def handle (line : String) : String :=
  match Wire.words line with
  | ["rk", w] => match w.toNat? with
    | some w => showNum (rkNum nativeOps w)
    | none => "bad-op"
  | ["rkspec", w] => match w.toNat? with
    | some w => showNum (rkSpec nativeOps w)
    | none => "bad-op"
  | ["sweep", a, b, c] => match a.toNat?, b.toNat?, c.toNat? with
    | some a, some b, some c => toString (sweep a b c).toNat
    | _, _, _ => "bad-op"
  | "rks" :: ws => match ws.mapM String.toNat? with
    | some ws => toString (ws.foldl (fun h w => fnvNum h (rkNum nativeOps (w % 4294967296))) 0xcbf29ce484222325).toNat
    | none => "bad-op"
  | ["rec", fmts, f1904, sst, typ, hx] =>
    match parseFmts fmts, parseSst sst, typ.toNat?, Wire.bytesOfHex hx with
    | some fmts, some sst, some typ, some d =>
      showRes (fun (st : St) => showCells st.cells) (step (mkEnv fmts (f1904 = "1") sst) ⟨[], (0, 0)⟩ ⟨typ, d, []⟩)
    | _, _, _, _ => "bad-op"
  | ["dec", fmts, f1904, sst, hx] =>
    match parseFmts fmts, parseSst sst, Wire.bytesOfHex hx with
    | some fmts, some sst, some d => showRes showRange (sheetRange (mkEnv fmts (f1904 = "1") sst) d)
    | _, _, _ => "bad-op"
  | ["enc", sst, cells] =>
    match parseSst sst, parseCells cells with
    | some sst, some cs =>
      Wire.hexOfBytes (substream (mkEnv [] false sst) (cs.map (·.1)) (cs.map (·.2)))
    | _, _ => "bad-op"
  | ["wb", fmts, f1904, sst, offs, hx] =>
    match parseFmts fmts, parseSst sst, (offs.splitOn ",").mapM String.toNat?, Wire.bytesOfHex hx with
    | some fmts, some sst, some offs, some d =>
      showRes (fun (rs : List (Range.Rng Val)) =>
        let text := "|".intercalate (rs.map showRange)
        if text.length > 4000 then
          s!"#{(text.toUTF8.foldl (fun h b => fnvByte h b.toUInt64) 0xcbf29ce484222325).toNat}:{rs.length}"
        else text) (workbookSheets (mkEnv fmts (f1904 = "1") sst) d offs)
    | _, _, _, _ => "bad-op"
  | ["frame", hx] => match Wire.bytesOfHex hx with
    | some d => showItems (items d)
    | none => "bad-op"
  | _ => "bad-op"

def main : IO Unit := Wire.run handle
