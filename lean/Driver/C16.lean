import CalVerif.Prim.Wire
import CalVerif.Model.Metadata
import CalVerif.Model.MetadataFormula
import CalVerif.Spec.MetadataEnc
/-! Driver for C16 (workbook metadata).

    requests (one per line) and replies:
      `xls <hex Workbook stream>`            → model of `xls.rs parse_workbook` (metadata part), after fix D35
      `xlsd35 <hex Workbook stream>`         → the pinned snapshot's Lbl name reader (ledger D35)
      `bs <hex BoundSheet8 payload> <0|1>`   → `parseSheetMetadata` (second word: BIFF8?) : `ok <pos> <hex name> <Type> <Vis>`
      `encbs <off> <hs> <dt> <0|1 wide> <hex units LE>` → hex of `MetaEnc.encodeBoundSheet`
      `xlsb R=<rels> <hex workbook.bin>`     → model of `xlsb/mod.rs read_workbook` (after fix C16-a (889c07c))
      `xlsbpinned R=<rels> <hex workbook.bin>`  → the pinned snapshot (payload of unknown records scanned as record ids)
      `encbundle <hs> <tabId> <hex rel units LE> <hex name units LE>` → hex of `MetaEnc.encodeBundleSh`
      `xlsx R=<rels> <ev> <ev> …`            → model of `xlsx/mod.rs read_workbook` (after fixes D22 and 4dbff9e)
      `xlsxd22 R=<rels> <ev> …`              → the pinned snapshot's `workbookPr` test (ledger D22)
      `xlsxd22fix R=<rels> <ev> …`           → the reader between 60648c6 and 4dbff9e (finding C16-b: a foreign workbookPr in extLst resets the flag)
      `ods <ev> <ev> …`                      → model of `ods.rs parse_content` (metadata part)
    rels  = `<hex id>=<hex target>,…` (empty: `R=`)
    ev    = `s:<name>:<k>=<hex v>,…|-` | `e:<name>` | `t:<hex>` | `c:<hex>` (CDATA) | `o`   (`:` inside names written `.`; harness `xlsxw::ev_wire`)
    reply = `ok d=<0|1> S=<hex name>:<Type>:<Vis>[:<hex path>],… N=<hex name>=<hex value>,…` | `err:<text>` | `panic` | `fuel`
    The formula decoders are C14's models (`Ptg.definedNameXls`, `Ptg.parseFormulaXlsb`), plugged into the
    parameters of the metadata model. -/

open Meta

def utf8OfText (t : Text) : List UInt8 := (String.ofList (t.map Char.ofNat)).toUTF8.toList
def hexText (t : Text) : String := Wire.hexOrDash (utf8OfText t)
def hexStr (s : String) : String := Wire.hexOrDash s.toUTF8.toList
def hexChars (s : List Char) : String := hexStr (String.ofList s)

def strOfHex (h : String) : Option String := do
  let bs ← Wire.bytesOfHex h
  String.fromUTF8? (ByteArray.mk bs.toArray)

def showWb {α : Type} (hx : α → String) (wb : Workbook α) (paths : Option (List (List Char))) : String :=
  let sh := (wb.sheets.zipIdx).map fun (s, i) =>
    let base := s!"{hx s.name}:{s.typ.tag}:{s.visible.tag}"
    match paths with
    | some ps => base ++ ":" ++ hexChars (ps.getD i [])
    | none => base
  let nm := wb.names.map fun (n, v) => s!"{hx n}={hx v}"
  s!"ok d={if wb.is1904 then 1 else 0} S={",".intercalate sh} N={",".intercalate nm}"

def showRes {α : Type} (r : Res α) (f : α → String) : String :=
  match r with
  | .ok a => f a
  | .err e => "err:" ++ e
  | .panic _ => "panic"
  | .outOfFuel => "fuel"

/-- C14's models of the formula decoders, as the parameters of the metadata model (`Model/MetadataFormula.lean`) -/
def parseDn : Bytes → Res (Option Nat × Text) := pdC14
def parseFmla : Bytes → List Text → List (Text × Text) → Res Text := pfC14

def parseRels (s : String) : Option (List (String × String)) :=
  match s.splitOn "=" with
  | "R" :: _ =>
    let body := (s.drop 2).toString
    if body.isEmpty then some [] else
    (body.splitOn ",").mapM fun kv =>
      match kv.splitOn "=" with
      | [k, v] => do pure ((← strOfHex k), (← strOfHex v))
      | _ => none
  | _ => none

def unDot (s : String) : String := String.ofList (s.toList.map fun c => if c = '.' then ':' else c)

def parseAttrs (s : String) : Option (List (String × String)) :=
  if s = "-" then some [] else
  (s.splitOn ",").mapM fun kv =>
    match kv.splitOn "=" with
    | [k, v] => do pure (unDot k, (← strOfHex v))
    | _ => none

def parseEv (w : String) : Option Ev :=
  match w.splitOn ":" with
  | ["s", n, a] => do pure (.start (unDot n) (← parseAttrs a))
  | ["e", n] => some (.end_ (unDot n))
  | ["t", h] => do pure (.text (← strOfHex h))
  | ["c", h] => do pure (.cdata (← strOfHex h))
  | ["o"] => some .other
  | _ => none

def unitsOfHex (h : String) : Option (List Nat) := do
  let bs ← Wire.bytesOfHex h
  pure (Biff.units16 bs)

def b01 (s : String) : Option Bool := if s = "1" then some true else if s = "0" then some false else none

def handle (line : String) : String :=
  match Wire.words line with
  | ["xls", h] =>
    match Wire.bytesOfHex h with
    | some bs => showRes (parseWorkbookXls parseDn bs) fun wb => showWb hexText wb none
    | none => "bad-hex"
  | ["xlsd35", h] =>
    match Wire.bytesOfHex h with
    | some bs => showRes (parseWorkbookXlsD35 parseDn bs) fun wb => showWb hexText wb none
    | none => "bad-hex"
  | ["bs", h, b] =>
    match Wire.bytesOfHex h, b01 b with
    | some bs, some b8 => showRes (parseSheetMetadata bs b8) fun (pos, s) => s!"ok {pos} {hexText s.name} {s.typ.tag} {s.visible.tag}"
    | _, _ => "bad-args"
  | ["encbs", off, hs, dt, w, us] =>
    match off.toNat?, hs.toNat?, dt.toNat?, b01 w, unitsOfHex us with
    | some off, some hs, some dt, some w, some us => Wire.hexOfBytes (MetaEnc.encodeBoundSheet off hs dt us w)
    | _, _, _, _, _ => "bad-args"
  | ["encbundle", hs, tab, rel, nm] =>
    match hs.toNat?, tab.toNat?, unitsOfHex rel, unitsOfHex nm with
    | some hs, some tab, some rel, some nm => Wire.hexOfBytes (MetaEnc.encodeBundleSh hs tab rel nm)
    | _, _, _, _ => "bad-args"
  | ["xlsb", r, h] =>
    match parseRels r, Wire.bytesOfHex h with
    | some rels, some bs =>
      showRes (readWorkbookXlsb parseFmla (rels.map fun (k, v) => (ofString k, v)) bs) fun (wb, paths) => showWb hexText wb (some paths)
    | _, _ => "bad-args"
  | ["xlsbpinned", r, h] =>
    match parseRels r, Wire.bytesOfHex h with
    | some rels, some bs =>
      showRes (readWorkbookXlsbPinned parseFmla (rels.map fun (k, v) => (ofString k, v)) bs) fun (wb, paths) => showWb hexText wb (some paths)
    | _, _ => "bad-args"
  | "xlsx" :: r :: evs =>
    match parseRels r, evs.mapM parseEv with
    | some rels, some evs => showRes (readWorkbookXlsx rels evs) fun (wb, paths) => showWb hexStr wb (some paths)
    | _, _ => "bad-args"
  | "xlsxd22" :: r :: evs =>
    match parseRels r, evs.mapM parseEv with
    | some rels, some evs => showRes (readWorkbookXlsxD22 rels evs) fun (wb, paths) => showWb hexStr wb (some paths)
    | _, _ => "bad-args"
  | "xlsxd22fix" :: r :: evs =>
    match parseRels r, evs.mapM parseEv with
    | some rels, some evs => showRes (readWorkbookXlsxD22Fix rels evs) fun (wb, paths) => showWb hexStr wb (some paths)
    | _, _ => "bad-args"
  | "ods" :: evs =>
    match evs.mapM parseEv with
    | some evs => showRes (parseContentOds evs) fun wb => showWb hexStr wb none
    | none => "bad-args"
  | _ => "bad-op"

def main : IO Unit := Wire.run handle
