import CalVerif.Prim.Wire
import CalVerif.Model.HeaderRow
/-! Driver for C08.
    `lazy <hdr> <r,c,v,r,c,v,…|->`                 → dump of `windowLazy`
    `eager <hdr> <sr,sc,er,ec|-> <v,v,v,…|->`       → dump of `windowEager` on that range
    hdr = `d` | `<n>`; values are Nat codes (0 = Empty). dump = `empty` | `sr,sc,er,ec:v,v,…` | `panic` -/
open Range HeaderRow

def parseHdr (s : String) : Option Hdr := if s = "d" then some .firstNonEmpty else s.toNat?.map .row

def nats (s : String) : Option (List Nat) := if s = "-" then some [] else (s.splitOn ",").mapM String.toNat?

def triples : List Nat → Option (List (Nat × Nat × Nat))
  | [] => some []
  | a :: b :: c :: rest => (triples rest).map ((a, b, c) :: ·)
  | _ => none

def dump : Res (Rng Nat) → String
  | .ok r => if r.inner.length = 0 then "empty"
             else s!"{r.sr},{r.sc},{r.er},{r.ec}:" ++ ",".intercalate (r.inner.map toString)
  | .err e => "err:" ++ e
  | .panic _ => "panic"
  | .outOfFuel => "fuel"

def handle (line : String) : String :=
  match Wire.words line with
  | ["lazy", h, cells] =>
    match parseHdr h, (nats cells).bind triples with
    | some h, some cs => dump (windowLazy cs h)
    | _, _ => "bad-op"
  | ["eager", h, rect, vals] =>
    match parseHdr h, nats rect, nats vals with
    | some h, some [], some [] => dump (windowEager (empty : Rng Nat) h)
    | some h, some [a, b, c, d], some vs => dump (windowEager (⟨a, b, c, d, vs⟩ : Rng Nat) h)
    | _, _, _ => "bad-op"
  | _ => "bad-op"

def main : IO Unit := Wire.run handle
