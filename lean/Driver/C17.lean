import CalVerif.Prim.Wire
import CalVerif.Model.Geometry
import CalVerif.Model.GeometryXls
import CalVerif.Spec.Geometry
/-! Driver for C17 (merged regions and tables). One request line → one reply line.

    mode word `<a><d>`: `a` = `s`|`c` (saturating / checked arithmetic in `get_row_and_optional_column`),
                        `d` = `s`|`c` (saturating / checked spans in `get_dimension`)
    event word: `s:<name>:<k>=<hex>,…|-`, `e:<name>`, `t:<hex>`, `o`  (`.` in a name stands for `:`)

    dim <mode> <hex>                          → ok sr,sc,er,ec | err:<tag> | panic
    rc <mode> <hex>                           → ok r,c | err:<tag> | panic
    xlsmc <hex>                               → ok <rects> | panic
    xlssheet <typ>:<hex> …                    → ok <rects> | panic
    xlsbook <name> <typ>:<hex> … | <name> …   → worksheet_merge_cells(name) ;; … ## worksheet_merge_cells_at(0..=n) ;; …
    regions <mode> <events…>                  → ok <rects> | err:<tag> | panic
    wmc <mode> <events…>                      → ok <rects> | panic
    mregions <mode> S <name> <path> <events…> | S … → ok name,path,rect;… | …
    tables <mode> S <name> <path> | … || P <path> <events…> | P … → ok name,sheet,cols,rect;…
    sheetsview <mode> S <name> <path> <events…> | …  → merged_regions ## by_sheet ;; … ## worksheet_merge_cells(name) ;; …
                                                 ## worksheet_merge_cells_at(i) ;; … ## …_at(len)
    tablesview <mode> S <name> <path> <cells> | … || P <path> <events…> | … || N <name> …
                                              → entries ## table_names ## table_names_in_sheet ;; … ## table_by_name ;; …
    tdata <sr> <sc> <er> <ec> <r:c:v,…|->     → S=… E=… ROWS=… | panic
    render <sr> <sc> <er> <ec> <0|1>          → hex of renderRef / renderRef2
    encmc <rects|->                           → hex of encodeMergedCells
    rects: `sr,sc,er,ec;…` or `-` -/

open Geometry

def parseMode (s : String) : Option Mode :=
  match s.toList with
  | [a, d] => some ⟨a = 's', d = 's'⟩
  | _ => none

def showRect (d : Rect) : String := s!"{d.sr},{d.sc},{d.er},{d.ec}"

def showRects (l : List Rect) : String :=
  if l.isEmpty then "-" else ";".intercalate (l.map showRect)

def showRes {α : Type} (f : α → String) : Res α → String
  | .ok a => "ok " ++ f a
  | .err e => "err:" ++ e
  | .panic _ => "panic"
  | .outOfFuel => "fuel"

def unName (s : String) : List Char := s.toList.map (fun c => if c = '.' then ':' else c)

def parseAttr (w : String) : Option (List Char × Bytes) :=
  match w.splitOn "=" with
  | [k, v] => (Wire.bytesOfHex v).map (fun b => (unName k, b))
  | _ => none

def parseEv (w : String) : Option Ev :=
  match w.splitOn ":" with
  | ["s", n, a] =>
    if a = "-" then some (.start (unName n) [])
    else ((a.splitOn ",").mapM parseAttr).map (fun as => .start (unName n) as)
  | ["e", n] => some (.end_ (unName n))
  | ["t", h] => (Wire.bytesOfHex h).map .text
  | ["o"] => some .other
  | _ => none

def parseEvs (ws : List String) : Option (List Ev) :=
  match ws with
  | ["-"] => some []
  | _ => ws.mapM parseEv

/-- split a word list at every occurrence of `sep` -/
def splitWords (sep : String) (ws : List String) : List (List String) :=
  ws.foldr (fun w acc =>
    if w = sep then [] :: acc
    else match acc with
      | g :: gs => (w :: g) :: gs
      | [] => [[w]]) [[]]

def parseRects (s : String) : Option (List Rect) :=
  if s = "-" then some []
  else (s.splitOn ";").mapM fun r =>
    match (r.splitOn ",").mapM String.toNat? with
    | some [a, b, c, d] => some ⟨a, b, c, d⟩
    | _ => none

def hx (b : Bytes) : String := Wire.hexOrDash b

def showEntry (t : TableEntry) : String :=
  let cols := if t.columns.isEmpty then "." else ":".intercalate (t.columns.map hx)
  s!"{hx t.name},{hx t.sheet},{cols},{showRect t.dims}"

def parseSheetPart (ws : List String) : Option SheetPart :=
  match ws with
  | "S" :: n :: p :: evs =>
    match Wire.bytesOfHex n, Wire.bytesOfHex p with
    | some n, some p =>
      if evs = ["!"] then some ⟨n, p, none⟩ else (parseEvs evs).map (fun e => ⟨n, p, some e⟩)
    | _, _ => none
  | _ => none

def parseCells (s : String) : Option (List (Nat × Nat × Nat)) :=
  if s = "-" then some []
  else (s.splitOn ",").mapM fun c =>
    match (c.splitOn ":").mapM String.toNat? with
    | some [a, b, v] => some (a, b, v)
    | _ => none

def dumpRange (r : Range.Rng Nat) : String :=
  let se := match r.start, r.end_ with
    | some s, some e => s!"S={s.1},{s.2} E={e.1},{e.2}"
    | _, _ => "S=- E=-"
  let rowsS := "/".intercalate ((Range.rows r).map fun row => ",".intercalate (row.map toString))
  s!"{se} ROWS={rowsS}"

def handle (line : String) : String :=
  match Wire.words line with
  | ["dim", m, h] =>
    match parseMode m, Wire.bytesOfHex h with
    | some m, some b => showRes showRect (getDimension m b)
    | _, _ => "bad-request"
  | ["rc", m, h] =>
    match parseMode m, Wire.bytesOfHex h with
    | some m, some b => showRes (fun p => s!"{p.1},{p.2}") (getRowColumn m b)
    | _, _ => "bad-request"
  | ["xlsmc", h] =>
    match Wire.bytesOfHex h with
    | some b => showRes showRects (parseMergeCells b)
    | none => "bad-request"
  | "xlssheet" :: recs =>
    let parsed := recs.mapM fun w =>
      match w.splitOn ":" with
      | [t, h] => match t.toNat?, Wire.bytesOfHex h with
        | some t, some b => some (t, b)
        | _, _ => none
      | _ => none
    match parsed with
    | some rs => showRes showRects (sheetMergeCells rs)
    | none => "bad-request"
  | "xlsbook" :: rest =>
    -- sheets in workbook order: `<name hex> <typ>:<hex> …` separated by `|`; the map is filled as the sheet loop does
    let parseRec : String → Option (Nat × Bytes) := fun w =>
      match w.splitOn ":" with
      | [t, h] => match t.toNat?, Wire.bytesOfHex h with
        | some t, some b => some (t, b)
        | _, _ => none
      | _ => none
    let sheets : Option (List (Bytes × List (Nat × Bytes))) :=
      ((splitWords "|" rest).filter (· ≠ [])).mapM fun ws =>
        match ws with
        | n :: recs =>
          match Wire.bytesOfHex n, recs.mapM parseRec with
          | some n, some rs => some (n, rs)
          | _, _ => none
        | [] => none
    match sheets with
    | some sheets =>
      let filled := sheets.foldl (fun (acc : Res (List (Bytes × List Rect))) s =>
        match acc with
        | .ok m => match sheetMergeCells s.2 with
          | .ok ds => .ok (mapInsert m s.1 ds)
          | .err e => .err e | .panic e => .panic e | .outOfFuel => .outOfFuel
        | other => other) (.ok [])
      match filled with
      | .ok m =>
        let names := sheets.map (·.1)
        let showOpt := fun (o : Option (List Rect)) => match o with
          | none => "none"
          | some l => "ok " ++ showRects l
        let byName := sheets.map fun s => showOpt (xlsWorksheetMergeCells m s.1)
        let at_ := (List.range (sheets.length + 1)).map fun i =>
          showOpt (worksheetMergeCellsAt names (xlsWorksheetMergeCells m) i)
        " ;; ".intercalate byName ++ " ## " ++ " ;; ".intercalate at_
      | r => showRes (fun _ => "") r
    | none => "bad-request"
  | "regions" :: m :: evs =>
    match parseMode m, parseEvs evs with
    | some m, some e => showRes showRects (regionsOfSheet m e)
    | _, _ => "bad-request"
  | "wmc" :: m :: evs =>
    match parseMode m, parseEvs evs with
    | some m, some e => showRes showRects (worksheetMergeCells m e)
    | _, _ => "bad-request"
  | "mregions" :: m :: rest =>
    match parseMode m, ((splitWords "|" rest).filter (· ≠ [])).mapM parseSheetPart with
    | some m, some sheets =>
      showRes (fun l => if l.isEmpty then "-" else
        ";".intercalate (l.map fun (n, p, d) => s!"{hx n},{hx p},{showRect d}")) (mergedRegions m sheets)
    | _, _ => "bad-request"
  | "tables" :: m :: rest =>
    match parseMode m, splitWords "||" rest with
    | some m, [sh, ps] =>
      let sheets := ((splitWords "|" sh).filter (· ≠ [])).mapM fun ws =>
        match ws with
        | ["S", n, p] => match Wire.bytesOfHex n, Wire.bytesOfHex p with
          | some n, some p => some (n, p)
          | _, _ => none
        | _ => none
      let parts := ((splitWords "|" ps).filter (· ≠ [])).mapM fun ws =>
        match ws with
        | "P" :: p :: evs => match Wire.bytesOfHex p, parseEvs evs with
          | some p, some e => some (p, e)
          | _, _ => none
        | _ => none
      match sheets, parts with
      | some sheets, some parts =>
        showRes (fun l => if l.isEmpty then "-" else ";".intercalate (l.map showEntry))
          (readTableMetadata m parts sheets)
      | _, _ => "bad-request"
    | _, _ => "bad-request"
  | "sheetsview" :: m :: rest =>
    match parseMode m, ((splitWords "|" rest).filter (· ≠ [])).mapM parseSheetPart with
    | some m, some sheets =>
      let showRegs := fun (l : List (Bytes × Bytes × Rect)) => if l.isEmpty then "-" else
        ";".intercalate (l.map fun (n, p, d) => s!"{hx n},{hx p},{showRect d}")
      let all := mergedRegions m sheets
      let bySheet := match all with
        | .ok l => sheets.map fun s => showRegs (mergedRegionsBySheet l s.name)
        | _ => sheets.map fun _ => "-"
      let showOpt := fun (o : Option (Res (List Rect))) => match o with
        | none => "none"
        | some r => showRes showRects r
      let byName := worksheetMergeCellsByName m sheets
      let wmc := sheets.map fun s => showOpt (byName s.name)
      let names := sheets.map (·.name)
      let wmcAt := (List.range sheets.length).map fun i => showOpt (worksheetMergeCellsAt names byName i)
      let unknown := showOpt (worksheetMergeCellsAt names byName sheets.length)
      " ## ".intercalate [showRes showRegs all, " ;; ".intercalate bySheet, " ;; ".intercalate wmc,
        " ;; ".intercalate wmcAt, unknown]
    | _, _ => "bad-request"
  | "tablesview" :: m :: rest =>
    match parseMode m, splitWords "||" rest with
    | some m, [sh, ps, ns] =>
      let sheets := ((splitWords "|" sh).filter (· ≠ [])).mapM fun ws =>
        match ws with
        | ["S", n, p, cells] => match Wire.bytesOfHex n, Wire.bytesOfHex p, parseCells cells with
          | some n, some p, some c => some (n, p, c)
          | _, _, _ => none
        | _ => none
      let parts := ((splitWords "|" ps).filter (· ≠ [])).mapM fun ws =>
        match ws with
        | "P" :: p :: evs => match Wire.bytesOfHex p, parseEvs evs with
          | some p, some e => some (p, e)
          | _, _ => none
        | _ => none
      let lookups := match ns with
        | "N" :: l => l.mapM Wire.bytesOfHex
        | _ => none
      match sheets, parts, lookups with
      | some sheets, some parts, some lookups =>
        match readTableMetadata m parts (sheets.map fun s => (s.1, s.2.1)) with
        | .ok ts =>
          let sheetRange : Bytes → Res (Range.Rng Nat) := fun name =>
            match sheets.find? (fun s => s.1 = name) with
            | some s => Range.fromSparse s.2.2
            | none => .err "WorksheetNotFound"
          let showNames := fun (l : List Bytes) => if l.isEmpty then "-" else ";".intercalate (l.map hx)
          let inSheet := sheets.map fun s => showNames (tableNamesInSheet ts s.1)
          let tabs := lookups.map fun n =>
            match tableByName ts sheetRange n with
            | .ok t =>
              let cols := if t.columns.isEmpty then "." else ":".intercalate (t.columns.map hx)
              s!"{hx t.name},{hx t.sheetName},{cols} | {dumpRange t.data} | {dumpRange t.toRange}"
            | .err e => "err:" ++ e
            | .panic _ => "panic"
            | .outOfFuel => "fuel"
          " ## ".intercalate ["ok " ++ (if ts.isEmpty then "-" else ";".intercalate (ts.map showEntry)),
            showNames (tableNames ts), " ;; ".intercalate inSheet, " ;; ".intercalate tabs]
        | r => showRes (fun _ => "") r
      | _, _, _ => "bad-request"
    | _, _ => "bad-request"
  | ["tdata", a, b, c, d, cells] =>
    match [a, b, c, d].mapM String.toNat?, parseCells cells with
    | some [a, b, c, d], some cells =>
      match (Range.fromSparse cells : Res (Range.Rng Nat)) with
      | .ok rng =>
        match tableData rng ⟨a, b, c, d⟩ with
        | .ok t => dumpRange t
        | _ => "panic"
      | _ => "panic-sparse"
    | _, _ => "bad-request"
  | ["render", a, b, c, d, two] =>
    match [a, b, c, d].mapM String.toNat? with
    | some [a, b, c, d] => hx (if two = "1" then renderRef2 ⟨a, b, c, d⟩ else renderRef ⟨a, b, c, d⟩)
    | _ => "bad-request"
  | ["encmc", rs] =>
    match parseRects rs with
    | some l => hx (encodeMergedCells l)
    | none => "bad-request"
  | _ => "bad-request"

def main : IO Unit := Wire.run handle
