import CalVerif.Prim.Wire
import CalVerif.Model.BiffStrings
import CalVerif.Spec.SstEnc
/-! Driver for C12 (BIFF8 strings under CONTINUE splits).

    requests (one line each)
      `enc  <cstTotal> <table>`  → `<hex of the record stream> legal=<0|1>`           (Spec encoder)
      `case <cstTotal> <table>`  → `bytes <hex> legal <0|1> model <res> expect <res>`  (encoder + model decoder + spec)
      `dec  <hex>`               → `<res>`   model of hook `sst_from_stream` on a raw record stream
      `recs <hex>`               → `ok <typ>=<frag>/<frag>…,<typ>=…` | `err:…`         model of `RecordIter`
      `skip <n> <hex>`           → `ok <frag>/<frag>…` | `err:…`                       model of `Record::skip` on the first record
      `short <biff8> <hex>`      → `<str-res>`  model of `parse_short_string` on a payload
      `str   <biff8> <hex>`      → `<str-res>`  model of `parse_string` on a payload
    <table>   = `-` (no entries) or entries joined by `;`
    entry     = `units,runs,ext,cutBefore,wide0,cuts,runCuts,extCuts`
                units = hex of UTF-16LE bytes or `-`; runs/ext = hex, `-` (present, empty) or `~` (absent);
                cuts = `n:w/n:w…` or `-`; runCuts/extCuts = `n/n…` or `-`
    <res>     = `ok <count> <utf8 hex>:<utf8 hex>…` (`-` = empty string) | `err:<class>` | `panic` | `fuel`
    <str-res> = `ok <utf8 hex>` | `err:<class>` | `panic` -/

open Biff

/-! fast hex I/O (requests are megabytes long): ByteArray indexing instead of `List Char` -/

def hexValB (c : UInt8) : UInt8 :=
  if 48 ≤ c && c ≤ 57 then c - 48
  else if 97 ≤ c && c ≤ 102 then c - 87
  else if 65 ≤ c && c ≤ 70 then c - 55
  else 255

def bytesOfHexFast (s : String) : Option (List UInt8) :=
  if s = "-" then some [] else
    let a := s.toUTF8
    if a.size % 2 ≠ 0 then none else
      let rec go : Nat → List UInt8 → Option (List UInt8)
        | 0, acc => some acc
        | i + 1, acc =>
          let h := hexValB (a.get! (2 * i))
          let l := hexValB (a.get! (2 * i + 1))
          if h == 255 || l == 255 then none else go i ((h * 16 + l) :: acc)
      go (a.size / 2) []

def hexDigitB (n : UInt8) : UInt8 := if n < 10 then 48 + n else 87 + n

def hexOfBytesFast (bs : List UInt8) : String :=
  let a := bs.foldl (fun (acc : ByteArray) b => (acc.push (hexDigitB (b / 16))).push (hexDigitB (b % 16))) (ByteArray.emptyWithCapacity (2 * bs.length))
  String.fromUTF8! a

def hexOrDashFast (bs : List UInt8) : String := if bs.isEmpty then "-" else hexOfBytesFast bs

def utf8Hex (cps : List Nat) : String :=
  hexOrDashFast (String.ofList (cps.map Char.ofNat)).toUTF8.toList

def showStrings (r : Res (List (List Nat))) : String :=
  match r with
  | .ok ss => if ss.isEmpty then "ok 0" else s!"ok {ss.length} " ++ ":".intercalate (ss.map utf8Hex)
  | .err e => "err:" ++ e
  | .panic _ => "panic"
  | .outOfFuel => "fuel"

def showString (r : Res (List Nat)) : String :=
  match r with
  | .ok s => "ok " ++ utf8Hex s
  | .err e => "err:" ++ e
  | .panic _ => "panic"
  | .outOfFuel => "fuel"

def showFrags (fs : List Bytes) : String := "/".intercalate (fs.map hexOrDashFast)

def unitsOfBytes : Bytes → List Nat := units16

def optBytes (s : String) : Option (Option Bytes) :=
  if s = "~" then some none else (bytesOfHexFast s).map some

def natList (s : String) : Option (List Nat) :=
  if s = "-" then some [] else (s.splitOn "/").mapM String.toNat?

def cutList (s : String) : Option (List (Nat × Bool)) :=
  if s = "-" then some [] else
    (s.splitOn "/").mapM fun p =>
      match p.splitOn ":" with
      | [n, w] => n.toNat?.map fun n => (n, w = "1")
      | _ => none

def parseEntry (s : String) : Option (Entry × EntryLayout) :=
  match s.splitOn "," with
  | [u, r, x, cb, w0, cuts, rc, xc] => do
    let ub ← bytesOfHexFast u
    let r ← optBytes r
    let x ← optBytes x
    let cuts ← cutList cuts
    let rc ← natList rc
    let xc ← natList xc
    pure ({ units := unitsOfBytes ub, runs := r, ext := x },
          { cutBefore := cb = "1", wide0 := w0 = "1", cuts := cuts, runCuts := rc, extCuts := xc })
  | _ => none

def parseTable (s : String) : Option (List Entry × List EntryLayout) :=
  if s = "-" then some ([], []) else
    ((s.splitOn ";").mapM parseEntry).map List.unzip

def fuelFor (s : Bytes) : Nat := s.length + 1

def handle (line : String) : String :=
  match Wire.words line with
  | ["enc", total, tbl] =>
    match total.toNat?, parseTable tbl with
    | some n, some (t, l) =>
      s!"{hexOfBytesFast (frameSst (encodeSst n t l))} legal={if decide (Legal n t l) then 1 else 0}"
    | _, _ => "bad-op"
  | ["case", total, tbl] =>
    match total.toNat?, parseTable tbl with
    | some n, some (t, l) =>
      let bytes := frameSst (encodeSst n t l)
      let model := sstFromStream (fuelFor bytes) bytes
      let expect : Res (List (List Nat)) := .ok (t.map fun e => decodeUtf16 e.units)
      s!"bytes {hexOfBytesFast bytes} legal {if decide (Legal n t l) then 1 else 0} model {showStrings model} expect {showStrings expect}"
    | _, _ => "bad-op"
  | ["dec", hex] =>
    match bytesOfHexFast hex with
    | some bs => showStrings (sstFromStream (fuelFor bs) bs)
    | none => "bad-op"
  | ["recs", hex] =>
    match bytesOfHexFast hex with
    | some bs =>
      match records (fuelFor bs) bs with
      | .ok rs => "ok " ++ ",".intercalate (rs.map fun r => s!"{r.typ}={showFrags (r.data :: r.cont)}")
      | .err e => "err:" ++ e
      | .panic _ => "panic"
      | .outOfFuel => "fuel"
    | none => "bad-op"
  | ["skip", n, hex] =>
    match n.toNat?, bytesOfHexFast hex with
    | some n, some bs =>
      match skipFirst bs n with
      | .ok fs => "ok " ++ showFrags fs
      | .err e => "err:" ++ e
      | .panic _ => "panic"
      | .outOfFuel => "fuel"
    | _, _ => "bad-op"
  | ["short", b8, hex] =>
    match bytesOfHexFast hex with
    | some bs => showString (parseShortString bs (b8 = "1"))
    | none => "bad-op"
  | ["str", b8, hex] =>
    match bytesOfHexFast hex with
    | some bs => showString (parseString bs (b8 = "1"))
    | none => "bad-op"
  | _ => "bad-op"

def main : IO Unit := Wire.run handle
