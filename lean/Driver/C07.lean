import CalVerif.Prim.Wire
import CalVerif.Model.Reader
import CalVerif.Model.Auto
import CalVerif.Model.DataConv
/-! Driver for C07: runs a call history through the reader state machine with a *symbolic* file
    (every `FileSem` function returns a term naming itself and its arguments) and prints, per call,
    the state in force before it and the symbolic result. The harness evaluates the symbolic result
    with freshly opened readers and compares it with what the long-lived reader returned.

    request: `hist <eager|lazy> sheets=<hexname>,… <op>;<op>;…`   op = `H,d` | `H,<n>` | `R,<hexname>` | `RR,<hexname>` | `RA,<n>` | `W` | `F,<hexname>`
             | `MC,<hexname>` | `LM` | `MR` | `MS,<hexname>` | `LT` | `TN` | `TB,<hexname>` | `V` | `SN` | `MD`
             preceded by `sheets=<hexname>,<hexname>…` as first field
    reply  : `<hdr>,<mergedLoaded>,<tablesLoaded>,<symbolic result>;…` -/
open Reader

def showHdr : Hdr → String
  | .firstNonEmpty => "d"
  | .row n => toString n

def symFile (eager : Bool) (sheets : List String) : FileSem :=
  { eager := eager, sheets := sheets,
    parts := sheets.map fun n => (n, n),
    partRange := fun n h => s!"rangeRef({n}|{showHdr h})",
    partFormula := fun n => s!"formula({n})",
    toOwned := fun o => s!"own({o})",
    mergeCells := fun n => s!"mergeCells({n})",
    mergedAll := "mergedAll",
    mergedBySheet := fun n => s!"mergedBySheet({n})",
    tableNames := "tableNames",
    tableMeta := fun n => .ok (s!"sheetOf({n})", s!"windowOf({n})"),
    window := fun r w => s!"window({r}|{w})",
    vba := "vba",
    metadata := "metadata" }

def parseOp (s : String) : Option Op :=
  match s.splitOn "," with
  | ["H", "d"] => some (.withHeaderRow .firstNonEmpty)
  | ["H", n] => n.toNat?.map fun k => .withHeaderRow (.row k)
  | ["R", n] => some (.range n)
  | ["RR", n] => some (.rangeRef n)
  | ["RA", n] => n.toNat?.map .rangeAt
  | ["W"] => some .worksheets
  | ["F", n] => some (.formula n)
  | ["MC", n] => some (.mergeCells n)
  | ["LM"] => some .loadMerged
  | ["MR"] => some .mergedRegions
  | ["MS", n] => some (.mergedBySheet n)
  | ["LT"] => some .loadTables
  | ["TN"] => some .tableNames
  | ["TB", n] => some (.tableByName n)
  | ["V"] => some .vba
  | ["SN"] => some .sheetNames
  | ["MD"] => some .metadata
  | _ => none

def bstr (b : Bool) : String := if b then "1" else "0"

def runSym (F : FileSem) : State → List Op → List String
  | _, [] => []
  | s, op :: rest =>
    let (s', o) := step F s op
    s!"{showHdr s.hdr},{bstr s.mergedLoaded},{bstr s.tablesLoaded},{o}" :: runSym F s' rest

def fmtName : Auto.Fmt → String
  | .xls => "xls" | .xlsx => "xlsx" | .xlsb => "xlsb" | .ods => "ods"

def parseAccepts (s : String) : Option Auto.Accepts :=
  match s.toList with
  | [a, b, c, d] => some ⟨a == '1', b == '1', c == '1', d == '1'⟩
  | _ => none

/-- `autors <bits>` / `autopath <ext|-> <bits>`; bits = does Xls / Xlsx / Xlsb / Ods `new` open the bytes -/
def handleAuto (ws : List String) : Option String :=
  match ws with
  | ["autors", bits] => (parseAccepts bits).map fun a =>
      match Auto.fromRs a with | some f => fmtName f | none => "cannot"
  | ["autopath", ext, bits] => (parseAccepts bits).map fun a =>
      match Auto.fromPath (if ext = "-" then none else some ext) a with
      | .opened f => fmtName f
      | .readerError f => "err:" ++ fmtName f
      | .cannotDetect => "cannot"
  | _ => none

/-! `dconv <cell>`: the conversion `DataRef -> Data` and the `DataType` observations of both sides.
    (texts travel as the hex of their UTF-8 bytes and are opaque to the conversion; the empty text is `-`)
    cell = `i:<int>` | `f:<bits>` | `s:<hex>` | `h:<hex>` (SharedString) | `b:<0|1>` | `d:<bits>:<dur>:<1904>` |
           `t:<hex>` (DateTimeIso) | `u:<hex>` (DurationIso) | `e:<k>` | `-`
    reply = `<owned cell> <view of the borrowed cell> <view of the owned cell>`; a view lists the nine `is_*` flags, the
    eight `get_*` results and, for `as_string` / `as_i64` / `as_f64`, whether the result is `None` (n), a value computed
    without a parser (v) or the result of a parser on the text (p) -/

open DataConv in
def parseCell (w : String) : Option DataRef :=
  match w.splitOn ":" with
  | ["-"] => some .empty
  | ["i", v] => v.toInt?.map .int
  | ["f", b] => b.toNat?.map .float
  | ["s", h] => some (.string h.toList)
  | ["h", h] => some (.sharedString h.toList)
  | ["b", v] => some (.bool (v == "1"))
  | ["d", b, du, n] => b.toNat?.map fun bits => .dateTime ⟨bits, du == "1", n == "1"⟩
  | ["t", h] => some (.dateTimeIso h.toList)
  | ["u", h] => some (.durationIso h.toList)
  | ["e", k] => k.toNat?.map .error
  | _ => none

open DataConv in
def showData : Data → String
  | .empty => "-"
  | .int v => s!"i:{v}"
  | .float b => s!"f:{b}"
  | .string s => "s:" ++ String.ofList s
  | .bool b => if b then "b:1" else "b:0"
  | .dateTime d => s!"d:{d.bits}:{if d.isDuration then 1 else 0}:{if d.is1904 then 1 else 0}"
  | .dateTimeIso s => "t:" ++ String.ofList s
  | .durationIso s => "u:" ++ String.ofList s
  | .error k => s!"e:{k}"

open DataConv in
def showView (v : View) (strDep : Bool) : String :=
  let b (x : Bool) := if x then "1" else "0"
  let o {α : Type} (f : α → String) (x : Option α) := match x with | some a => f a | none => "-"
  let hx (s : Str) := "x" ++ String.ofList s
  let k {α : Type} (x : Option α) := if strDep then "p" else if x.isSome then "v" else "n"
  let flags := String.join [b v.isEmpty, b v.isInt, b v.isFloat, b v.isBool, b v.isString, b v.isDurationIso,
    b v.isDateTime, b v.isDateTimeIso, b v.isError]
  let edt (d : Edt) := s!"{d.bits}:{b d.isDuration}:{b d.is1904}"
  s!"{flags},gi={o toString v.getInt},gf={o toString v.getFloat},gb={o b v.getBool},gs={o hx v.getString}," ++
  s!"gd={o edt v.getDateTime},gdi={o hx v.getDateTimeIso},gdu={o hx v.getDurationIso},ge={o toString v.getError}," ++
  s!"as={b v.asString.isSome}{k v.asI64}{k v.asF64}"

open DataConv in
def handleDconv (w : String) : String :=
  match parseCell w with
  | none => "bad-op"
  | some c =>
    -- the parsers' results are not looked at (only whether a parser is consulted): any `Std` will do
    let σ : Std := ⟨fun _ => [], fun _ => [], fun _ => 0, fun _ => 0, fun _ => 0, fun _ => none, fun _ => none⟩
    let strDep := match c with | .string _ | .sharedString _ => true | _ => false
    s!"{showData (toData c)} {showView (viewRef σ c) strDep} {showView (viewData σ (toData c)) strDep}"

def handle (line : String) : String :=
  match Wire.words line with
  | ["hist", kind, sheets, ops] =>
    let names := if sheets = "sheets=" then [] else (sheets.drop 7).toString.splitOn ","
    match (ops.splitOn ";").mapM parseOp with
    | some l => ";".intercalate (runSym (symFile (kind = "eager") names) {} l)
    | none => "bad-op"
  | ["hist2", kind, sheets, lm, lt, ops] =>
    -- as `hist`, with what `load_merged_regions()` / `load_tables()` return on this file (`ok` or the error text)
    let names := if sheets = "sheets=" then [] else (sheets.drop 7).toString.splitOn ","
    match (ops.splitOn ";").mapM parseOp with
    | some l =>
      let F := { symFile (kind = "eager") names with
                 loadMergedErr := if lm = "ok" then none else some lm,
                 loadTablesErr := if lt = "ok" then none else some lt }
      ";".intercalate (runSym F {} l)
    | none => "bad-op"
  | ["dconv", w] => handleDconv w
  | ws => (handleAuto ws).getD "bad-op"

def main : IO Unit := Wire.run handle
