import CalVerif.Prim.Wire
import CalVerif.Model.Reader
import CalVerif.Model.Auto
/-! Driver for C07: runs a call history through the reader state machine with a *symbolic* file
    (every `FileSem` function returns a term naming itself and its arguments) and prints, per call,
    the state in force before it and the symbolic result. The harness evaluates the symbolic result
    with freshly opened readers and compares it with what the long-lived reader returned.

    request: `hist <eager|lazy> sheets=<hexname>,… <op>;<op>;…`   op = `H,d` | `H,<n>` | `R,<hexname>` | `RR,<hexname>` | `RA,<n>` | `W` | `F,<hexname>`
             | `MC,<hexname>` | `LM` | `MR` | `MS,<hexname>` | `LT` | `TN` | `TB,<hexname>` | `V` | `SN` | `MD`
             preceded by `sheets=<hexname>,<hexname>…` as first field
    reply  : `<hdr>,<mergedLoaded>,<tablesLoaded>,<symbolic result>;…` -/
open Reader

def showHdr : Hdr → String
  | .firstNonEmpty => "d"
  | .row n => toString n

def symFile (eager : Bool) (sheets : List String) : FileSem :=
  { eager := eager, sheets := sheets,
    parts := sheets.map fun n => (n, n),
    partRange := fun n h => s!"rangeRef({n}|{showHdr h})",
    partFormula := fun n => s!"formula({n})",
    toOwned := fun o => s!"own({o})",
    mergeCells := fun n => s!"mergeCells({n})",
    mergedAll := "mergedAll",
    mergedBySheet := fun n => s!"mergedBySheet({n})",
    tableNames := "tableNames",
    tableMeta := fun n => .ok (s!"sheetOf({n})", s!"windowOf({n})"),
    window := fun r w => s!"window({r}|{w})",
    vba := "vba",
    metadata := "metadata" }

def parseOp (s : String) : Option Op :=
  match s.splitOn "," with
  | ["H", "d"] => some (.withHeaderRow .firstNonEmpty)
  | ["H", n] => n.toNat?.map fun k => .withHeaderRow (.row k)
  | ["R", n] => some (.range n)
  | ["RR", n] => some (.rangeRef n)
  | ["RA", n] => n.toNat?.map .rangeAt
  | ["W"] => some .worksheets
  | ["F", n] => some (.formula n)
  | ["MC", n] => some (.mergeCells n)
  | ["LM"] => some .loadMerged
  | ["MR"] => some .mergedRegions
  | ["MS", n] => some (.mergedBySheet n)
  | ["LT"] => some .loadTables
  | ["TN"] => some .tableNames
  | ["TB", n] => some (.tableByName n)
  | ["V"] => some .vba
  | ["SN"] => some .sheetNames
  | ["MD"] => some .metadata
  | _ => none

def bstr (b : Bool) : String := if b then "1" else "0"

def runSym (F : FileSem) : State → List Op → List String
  | _, [] => []
  | s, op :: rest =>
    let (s', o) := step F s op
    s!"{showHdr s.hdr},{bstr s.mergedLoaded},{bstr s.tablesLoaded},{o}" :: runSym F s' rest

def fmtName : Auto.Fmt → String
  | .xls => "xls" | .xlsx => "xlsx" | .xlsb => "xlsb" | .ods => "ods"

def parseAccepts (s : String) : Option Auto.Accepts :=
  match s.toList with
  | [a, b, c, d] => some ⟨a == '1', b == '1', c == '1', d == '1'⟩
  | _ => none

/-- `autors <bits>` / `autopath <ext|-> <bits>`; bits = does Xls / Xlsx / Xlsb / Ods `new` open the bytes -/
def handleAuto (ws : List String) : Option String :=
  match ws with
  | ["autors", bits] => (parseAccepts bits).map fun a =>
      match Auto.fromRs a with | some f => fmtName f | none => "cannot"
  | ["autopath", ext, bits] => (parseAccepts bits).map fun a =>
      match Auto.fromPath (if ext = "-" then none else some ext) a with
      | .opened f => fmtName f
      | .readerError f => "err:" ++ fmtName f
      | .cannotDetect => "cannot"
  | _ => none

def handle (line : String) : String :=
  match Wire.words line with
  | ["hist", kind, sheets, ops] =>
    let names := if sheets = "sheets=" then [] else (sheets.drop 7).toString.splitOn ","
    match (ops.splitOn ";").mapM parseOp with
    | some l => ";".intercalate (runSym (symFile (kind = "eager") names) {} l)
    | none => "bad-op"
  | ws => (handleAuto ws).getD "bad-op"

def main : IO Unit := Wire.run handle
