import CalVerif.Prim.Wire
import CalVerif.Model.Ptg
import CalVerif.Spec.Formula
import CalVerif.Model.XlsxFormula
import CalVerif.Model.XlsbFormula
/-! Driver for C14 (formula tokens → A1 text).

    requests (one per line) and replies:
      `col <n>`                         → the letters `pushColumn n`
      `sweep col <lo> <hi>`             → FNV-1a-64 (decimal) over `letters '\n'` for n = lo..=hi
      `xls <hex rgce> <ctx>`            → result of the model of `xls.rs parse_formula` (rgce = cce + tokens)
      `xlsb <hex rgce> <ctx>`           → result of the model of `xlsb/mod.rs parse_formula`
      `dn <hex rgce>`                   → model of `parse_defined_names`: `<ixti|-> <hex text>` | `panic`
      `str16 <hex units…>`              → `decodeUtf16` of little-endian units, hex utf-8
      `enc <ctx> | <expr>`              → `xls=<hex> xlsb=<hex> text=<hex> mx=<result> mb=<result>`:
                                          both encodings of `toRpn e` (xls framed with cce), `renderA1`, and the
                                          two model decoders run on those bytes
      `toks <ctx> | <tok>;<tok>;…`      → same reply shape for a raw token list (text = `-`)
      `bsf <hex part> <ctx>`            → model of xlsb `worksheet_formula` up to `from_sparse` (`XlsbFormula.sheetFormulas`) on the bytes
                                          of a worksheet part: `ok <row>,<col>,<hex text> …` | `err:<hex msg>` | `panic` | `fuel`
      `xf <event> <event> …`            → model of xlsx `next_formula` on a worksheet part's XML events (wire form of
                                          `verif_harness::xlsxw::ev_wire`): `ok <row>,<col>,<hex text> …` | `err:<class>`
    ctx    = `S=<hex>,<hex>… N=<hex>,… X=<int>,…`  sheet names / defined names (utf-8 hex; empty list: `S=`),
             XTI table as `itab_first` values.  The xlsb decoder receives the resolved extern-sheet table
             (`Formula.resolveExtern`: `sheets[itab_first]` for every XTI entry, the workbook reader's placeholders otherwise).
    result = `ok:<hex utf-8>` | `err:<hex of the Debug text of the error>` | `panic` | `fuel`
    PtgNum is printed as `<num:16 hex digits of the bits>` (the harness substitutes Rust's `Display`).
    expr   = prefix notation, space separated (see `parseExpr`); `AT <etpg> <w> e` / `AC <o1,o2,…> e` = `e` followed by an
             inert PtgAttr token (PtgAttrIf/Goto/Semi…, PtgAttrChoose). -/

open Ptg Formula

def hexNat (n width : Nat) : String :=
  let ds := Nat.toDigits 16 n
  String.ofList (List.replicate (width - ds.length) '0' ++ ds)

def fmtNumPlaceholder (bits : Nat) : List Char := ("<num:" ++ hexNat bits 16 ++ ">").toList

def utf8Hex (cs : List Char) : String := Wire.hexOrDash (String.ofList cs).toUTF8.toList

def showRes (r : Res (List Char)) : String :=
  match r with
  | .ok t => "ok:" ++ utf8Hex t
  | .err e => "err:" ++ Wire.hexOrDash e.toUTF8.toList
  | .panic _ => "panic"
  | .outOfFuel => "fuel"

def fnvStep (h : UInt64) (b : UInt8) : UInt64 := (h ^^^ b.toUInt64) * 0x100000001b3

def sweepCol (lo hi : Nat) : UInt64 := Id.run do
  let mut h : UInt64 := 0xcbf29ce484222325
  for n in [lo:hi + 1] do
    for c in pushColumn n do
      h := fnvStep h (UInt8.ofNat c.toNat)
    h := fnvStep h 10
  return h

/-! context -/

def parseHexList (s : String) : Option (List (List Char)) :=
  if s.isEmpty then some [] else
  (s.splitOn ",").mapM fun h => do
    let bs ← Wire.bytesOfHex h
    let str ← String.fromUTF8? (ByteArray.mk bs.toArray)
    pure str.toList

def parseIntList (s : String) : Option (List Int) :=
  if s.isEmpty then some [] else (s.splitOn ",").mapM String.toInt?

structure WireCtx where
  sheets : List (List Char)
  names : List (List Char)
  xtis : List Int

def parseCtx : List String → Option WireCtx
  | [s, n, x] =>
    if s.startsWith "S=" ∧ n.startsWith "N=" ∧ x.startsWith "X=" then do
      let sh ← parseHexList (s.drop 2).toString
      let nm ← parseHexList (n.drop 2).toString
      let xt ← parseIntList (x.drop 2).toString
      pure ⟨sh, nm, xt⟩
    else none
  | _ => none

def WireCtx.xls (c : WireCtx) : Ctx := ⟨c.sheets, c.names, c.xtis, fmtNumPlaceholder⟩

/-- extern-sheet table as `xlsb` builds it: one sheet name per XTI entry -/
def WireCtx.xlsb (c : WireCtx) : Ctx := ⟨resolveExtern c.sheets c.xtis, c.names, [], fmtNumPlaceholder⟩

def WireCtx.env (c : WireCtx) : Env :=
  ⟨fun ixti => match c.xtis[ixti]? with
      | some it => if it < 0 then [] else (c.sheets[it.toNat]?).getD []
      | none => [],
   fun i => (c.names[i]?).getD [], fmtNumPlaceholder⟩

/-! expressions -/

def bool? (s : String) : Option Bool := if s = "1" then some true else if s = "0" then some false else none

def cellRef? : List String → Option (CellRef × List String)
  | r :: c :: ca :: ra :: rest => do
    pure (⟨← r.toNat?, ← c.toNat?, ← bool? ca, ← bool? ra⟩, rest)
  | _ => none

def chars? (s : String) : Option (List Char) :=
  if s = "-" then some [] else (s.splitOn ",").mapM fun w => do
    let n ← w.toNat?
    if n < 0xD800 ∨ (0xE000 ≤ n ∧ n < 0x110000) then some (Char.ofNat n) else none

partial def parseExpr : List String → Option (Expr × List String)
  | "R" :: c :: rest => do
    let (a, rest) ← cellRef? rest
    pure (.ref (← c.toNat?) a, rest)
  | "A" :: c :: rest => do
    let (a, rest) ← cellRef? rest
    let (b, rest) ← cellRef? rest
    pure (.area (← c.toNat?) a b, rest)
  | "R3" :: c :: i :: rest => do
    let (a, rest) ← cellRef? rest
    pure (.ref3d (← c.toNat?) (← i.toNat?) a, rest)
  | "A3" :: c :: i :: rest => do
    let (a, rest) ← cellRef? rest
    let (b, rest) ← cellRef? rest
    pure (.area3d (← c.toNat?) (← i.toNat?) a b, rest)
  | "N" :: c :: i :: rest => do pure (.name (← c.toNat?) (← i.toNat?), rest)
  | "I" :: n :: rest => do pure (.int (← n.toNat?), rest)
  | "F" :: h :: rest => do
    let bs ← Wire.bytesOfHex h
    if bs.length ≠ 8 then none else
    pure (.num (bs.foldl (fun acc b => acc * 256 + b.toNat) 0), rest)
  | "S" :: w :: cs :: rest => do pure (.str (← bool? w) (← chars? cs), rest)
  | "B" :: b :: rest => do pure (.bool (← bool? b), rest)
  | "E" :: c :: rest => do pure (.err (← c.toNat?), rest)
  | "M" :: rest => some (.missing, rest)
  | "AT" :: e :: w :: rest => do
    let (x, rest) ← parseExpr rest
    pure (.inert (.attrSkip (← e.toNat?) (← w.toNat?)) x, rest)
  | "AC" :: offs :: rest => do
    let (x, rest) ← parseExpr rest
    pure (.inert (.attrChoose (← (offs.splitOn ",").mapM String.toNat?)) x, rest)
  | "U+" :: rest => do let (e, rest) ← parseExpr rest; pure (.uplus e, rest)
  | "U-" :: rest => do let (e, rest) ← parseExpr rest; pure (.uminus e, rest)
  | "PCT" :: rest => do let (e, rest) ← parseExpr rest; pure (.percent e, rest)
  | "PAR" :: rest => do let (e, rest) ← parseExpr rest; pure (.paren e, rest)
  | "SUM" :: rest => do let (e, rest) ← parseExpr rest; pure (.sum e, rest)
  | "OP" :: op :: rest => do
    let (a, rest) ← parseExpr rest
    let (b, rest) ← parseExpr rest
    pure (.bin (← op.toNat?) a b, rest)
  | "FN" :: c :: f :: n :: rest => do
    let (args, rest) ← parseArgs (← n.toNat?) rest
    pure (.func (← c.toNat?) (← f.toNat?) args, rest)
  | "FV" :: c :: f :: n :: rest => do
    let (args, rest) ← parseArgs (← n.toNat?) rest
    pure (.funcVar (← c.toNat?) (← f.toNat?) args, rest)
  | _ => none
where
  parseArgs : Nat → List String → Option (List Expr × List String)
    | 0, rest => some ([], rest)
    | n + 1, rest => do
      let (e, rest) ← parseExpr rest
      let (es, rest) ← parseArgs n rest
      pure (e :: es, rest)

/-- raw tokens: `name,arg,arg…` -/
def parseTok (s : String) : Option Tok :=
  let nat? := String.toNat?
  match s.splitOn "," with
  | ["ref", c, r, cl, ca, ra] => do pure (.ref (← nat? c) ⟨← nat? r, ← nat? cl, ← bool? ca, ← bool? ra⟩)
  | ["area", c, r, cl, ca, ra, r2, cl2, ca2, ra2] => do
    pure (.area (← nat? c) ⟨← nat? r, ← nat? cl, ← bool? ca, ← bool? ra⟩ ⟨← nat? r2, ← nat? cl2, ← bool? ca2, ← bool? ra2⟩)
  | ["ref3d", c, i, r, cl, ca, ra] => do
    pure (.ref3d (← nat? c) (← nat? i) ⟨← nat? r, ← nat? cl, ← bool? ca, ← bool? ra⟩)
  | ["area3d", c, i, r, cl, ca, ra, r2, cl2, ca2, ra2] => do
    pure (.area3d (← nat? c) (← nat? i) ⟨← nat? r, ← nat? cl, ← bool? ca, ← bool? ra⟩
      ⟨← nat? r2, ← nat? cl2, ← bool? ca2, ← bool? ra2⟩)
  | ["refErr", c] => do pure (.refErr (← nat? c))
  | ["areaErr", c] => do pure (.areaErr (← nat? c))
  | ["refErr3d", c, i] => do pure (.refErr3d (← nat? c) (← nat? i))
  | ["areaErr3d", c, i] => do pure (.areaErr3d (← nat? c) (← nat? i))
  | ["name", c, i] => do pure (.name (← nat? c) (← nat? i))
  | ["int", n] => do pure (.int (← nat? n))
  | ["bool", b] => do pure (.bool (← bool? b))
  | ["err", c] => do pure (.err (← nat? c))
  | ["missArg"] => some .missArg
  | ["binop", o] => do pure (.binop (← nat? o))
  | ["uplus"] => some .uplus
  | ["uminus"] => some .uminus
  | ["percent"] => some .percent
  | ["paren"] => some .paren
  | ["attrSum"] => some .attrSum
  | ["attrSkip", e, w] => do pure (.attrSkip (← nat? e) (← nat? w))
  | "attrChoose" :: offs => do pure (.attrChoose (← offs.mapM nat?))
  | ["func", c, f] => do pure (.func (← nat? c) (← nat? f))
  | ["funcVar", c, n, f] => do pure (.funcVar (← nat? c) (← nat? n) (← nat? f))
  | _ => none

def replyFor (c : WireCtx) (toks : List Tok) (text : String) : String :=
  let bx := frameXls (encodeXls toks)
  let bb := encodeXlsb toks
  s!"xls={Wire.hexOrDash bx} xlsb={Wire.hexOrDash bb} text={text} mx={showRes (parseFormulaXls c.xls bx)} mb={showRes (parseFormulaXlsb c.xlsb bb)}"

def splitBar (ws : List String) : List String × List String :=
  (ws.takeWhile (· ≠ "|"), (ws.dropWhile (· ≠ "|")).drop 1)

/-! xlsx worksheet events (same wire form as the C01 driver) -/

def natsOfHex (s : String) : Option XlsxCells.Bytes := (Wire.bytesOfHex s).map (·.map UInt8.toNat)

def nameOfWire (s : String) : XlsxCells.Bytes := (s.toList.map fun ch => if ch = '.' then 58 else ch.toNat)

def attrsOfWire (s : String) : Option XlsxCells.Attrs :=
  if s = "-" then some [] else
  (s.splitOn ",").mapM fun kv =>
    match kv.splitOn "=" with
    | [k, v] => (natsOfHex v).map fun b => (nameOfWire k, b)
    | _ => none

def evOfWire (w : String) : Option XlsxCells.Ev :=
  if w = "o" then some .other else
  match w.splitOn ":" with
  | ["s", n, a] => (attrsOfWire a).map fun at_ => .start (nameOfWire n) at_
  | ["e", n] => some (.stop (nameOfWire n))
  | ["t", h] => (natsOfHex h).map .text
  -- a CDATA section is character data for every loop of the reader (`Event::CData` is appended like `Event::Text`)
  | ["c", h] => (natsOfHex h).map .text
  | _ => none

def xfReply (ws : List String) : String :=
  match (if ws = ["-"] then some [] else ws.mapM evOfWire) with
  | none => "bad-request"
  | some evs =>
    match XlsxFormula.readFormulas evs with
    | .ok cells =>
      "ok" ++ String.join (cells.map fun c => s!" {c.1},{c.2.1},{Wire.hexOrDash (c.2.2.map UInt8.ofNat)}")
    | .err e => "err:" ++ e
    | .panic _ => "panic"
    | .outOfFuel => "fuel"

def handle (line : String) : String :=
  match Wire.words line with
  | ["ftab"] =>
    -- the function table as translated from the source (a harness built without the crate's hooks has no other
    -- access to it): `<utf8 hex of the name | ->:<argc>` per index
    " ".intercalate ((List.range Gen.ftab.size).map fun i =>
      s!"{Wire.hexOrDash (Gen.ftab.getD i "").toUTF8.toList}:{Gen.ftabArgc.getD i 0}")
  | ["col", n] => match n.toNat? with
    | some n => String.ofList (pushColumn n)
    | none => "bad-request"
  | ["sweep", "col", lo, hi] => match lo.toNat?, hi.toNat? with
    | some lo, some hi => toString (sweepCol lo hi).toNat
    | _, _ => "bad-request"
  | "xls" :: h :: ctx => match Wire.bytesOfHex h, parseCtx ctx with
    | some bs, some c => showRes (parseFormulaXls c.xls bs)
    | _, _ => "bad-request"
  | "xlsb" :: h :: ctx => match Wire.bytesOfHex h, parseCtx ctx with
    | some bs, some c => showRes (parseFormulaXlsb c.xlsb bs)
    | _, _ => "bad-request"
  | ["dn", h] => match Wire.bytesOfHex h with
    | some bs => match definedNameXls bs with
      | .ok (ix, t) => s!"{match ix with | some i => toString i | none => "-"} {utf8Hex t}"
      | .err e => "err:" ++ e
      | _ => "panic"
    | none => "bad-request"
  | ["str16", h] => match Wire.bytesOfHex h with
    | some bs => utf8Hex (decodeUtf16 (units bs 0 (bs.length / 2)))
    | none => "bad-request"
  | "bsf" :: h :: ctx => match Wire.bytesOfHex h, parseCtx ctx with
    | some bs, some c =>
      match XlsbFormula.sheetFormulas c.xlsb bs with
      | .ok cells => "ok" ++ String.join (cells.map fun x => s!" {x.1},{x.2.1},{utf8Hex x.2.2}")
      | .err e => "err:" ++ Wire.hexOrDash e.toUTF8.toList
      | .panic _ => "panic"
      | .outOfFuel => "fuel"
    | _, _ => "bad-request"
  | "xf" :: ws => xfReply ws
  | "enc" :: rest =>
    let (ctx, ex) := splitBar rest
    match parseCtx ctx, parseExpr ex with
    | some c, some (e, []) => replyFor c (toRpn e) (utf8Hex (renderA1 c.env e))
    | _, _ => "bad-request"
  | "toks" :: rest =>
    let (ctx, ts) := splitBar rest
    match parseCtx ctx, ts with
    | some c, [t] => match (t.splitOn ";").mapM parseTok with
      | some toks => replyFor c toks "-"
      | none => "bad-request"
    | _, _ => "bad-request"
  | _ => "bad-request"

def main : IO Unit := Wire.run handle
