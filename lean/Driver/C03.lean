import CalVerif.Prim.Wire
import CalVerif.Model.Xlsb
import CalVerif.Spec.XlsbEnc
import CalVerif.Model.XlsbBook
/-! Driver for C03 (XLSB cell records). One request line → one reply line.

    item   = `R,<wide>,<lenw>,<row>,<tailhex>` | `N,<wide>,<lenw>,<id>,<payloadhex>`
           | `C,<wide>,<lenw>,<col>,<style>,<kind>,<arg>,<fmlahex|->`   kind/arg: `k,-` blank · `r,<word>` RK ·
             `e,<code>` · `b,<byte>` · `f,<bits>` real · `s,<units>` string · `i,<index>` shared string
    units  = 4 hex digits per UTF-16 code unit, `.` = empty string
    ctx    = `<fmts> <1904> <strings>`: fmts = digits 0|1|2 per XF or `-`; strings = comma separated units or `-`

    `enc <item>…`              → hex of the framed records (the sheet part when the items are a whole part)
    `dec <ctx> <hex>`          → `decodeSheet` on the bytes: canonical range | `err:<class>` | `panic`
    `area <ctx> <hex>`         → number of cells of the dense range `dec` would build | `-`
    `spec <ctx> <item>…`       → canonical range of `fromSparse (specCells items)` (the data items only)
    `recs <hex>`               → `ok <id>:<hex> …` | `io <id>:<hex> …` (records read before the part broke off)
    `wstr <hex>`               → `ok <units> <str_len>` | `err:WideStr` | `panic`
    `sst <hex>`                → `ok <strings>` | `err:…` | `panic`
    `dim <hex>`                → `sr sc er ec`
    `rels <b|x> <ev>…`         → `Rels.readRels` (xlsb / xlsx configuration) on the events of a relationships part:
                                 `ok <idhex>=<targethex>,…` (latest first; `-` = empty) | `err:<class>`
                                 ev = `S:<namehex>:<attr>;…` (attr = `<keyhex>=<valhex>` | `!` malformed; no attrs: `S:<namehex>:`)
                                 | `E:<namehex>` | `O` | `F` (Eof) | `X` (tokeniser error); empty hex = `-`
    `book <wbhex|-> <ev>…`     → `XlsbBook.openBook` restricted to relationships + workbook.bin (formula decoder: a stub,
                                 the generated workbooks have no defined names): `ok <1904> <name utf8 hex>:<kind>:<vis>:<pathhex> …`
                                 | `err:<class>`; first token after `book`: the workbook part, then `R` (rels part present)
                                 or `N` (absent), then the events
    `sweep id <lo> <hi> <wide>`   → `<fnv of the encoded bytes> <fnv of the decoded ids>` for ids lo..hi-1, each
                                   written as a record with an empty payload
    `sweep len <lo> <hi> <w> <step>` → the same for the length varint of lo, lo+step, … < hi at width `w`
                                   (varint only: `readLen (encLenW w n)`) -/

open Xlsb Wire

def hex4 (n : Nat) : String :=
  String.ofList [hexDigit (n / 4096 % 16), hexDigit (n / 256 % 16), hexDigit (n / 16 % 16), hexDigit (n % 16)]

def hex16 (n : Nat) : String := hex4 (n / 281474976710656 % 65536) ++ hex4 (n / 4294967296 % 65536) ++ hex4 (n / 65536 % 65536) ++ hex4 (n % 65536)

/-- hex of a byte list without deep recursion (sheet parts reach several 100 KB) -/
def hexFast (bs : List UInt8) : String :=
  if bs.isEmpty then "-"
  else bs.foldl (fun (s : String) b => (s.push (hexDigit (b.toNat / 16))).push (hexDigit (b.toNat % 16))) ""

def unitsStr (us : List Nat) : String := if us.isEmpty then "." else String.join (us.map hex4)

def parseUnitsAux : List Char → List Nat → Option (List Nat)
  | [], acc => some acc.reverse
  | a :: b :: c :: d :: rest, acc =>
    match hexVal a, hexVal b, hexVal c, hexVal d with
    | some w, some x, some y, some z => parseUnitsAux rest ((w * 4096 + x * 256 + y * 16 + z) :: acc)
    | _, _, _, _ => none
  | _, _ => none

def parseUnits (s : String) : Option (List Nat) := if s = "." then some [] else parseUnitsAux s.toList []

def showVal : Val → String
  | .empty => "_"
  | .int i => s!"I:{i}"
  | .float b => "F:" ++ hex16 b
  | .str us => "S:" ++ unitsStr us
  | .bool b => if b then "B:1" else "B:0"
  | .dateTime b td y => "D:" ++ hex16 b ++ (if td then ":td:" else ":dt:") ++ (if y then "1" else "0")
  | .error c => s!"E:{c}"

/-- canonical form of a range: bounds and the non-empty cells (absolute positions, row-major).
    Written as a left fold (ranges reach 2^21 cells; `Range.cells` recurses once per cell). -/
def showRange (r : Range.Rng Val) : String :=
  if r.inner.length = 0 then "ok E"
  else
    let w := r.width
    let st := r.inner.foldl (fun (st : Nat × List String) v =>
      (st.1 + 1, if v = Val.empty then st.2 else s!"{r.sr + st.1 / w},{r.sc + st.1 % w},{showVal v}" :: st.2)) (0, [])
    let cs := st.2.reverse
    s!"ok {r.sr} {r.sc} {r.er} {r.ec} " ++ (if cs.isEmpty then "-" else ";".intercalate cs)

def showRes {α : Type} (f : α → String) : Res α → String
  | .ok a => f a
  | .err e => "err:" ++ e
  | .panic _ => "panic"
  | .outOfFuel => "fuel"

def parseCtx (fmts y strs : String) : Option Ctx := do
  let fs ← if fmts = "-" then some [] else fmts.toList.mapM (fun c => if c = '0' then some 0 else if c = '1' then some 1 else if c = '2' then some 2 else none)
  let ss ← if strs = "-" then some [] else (strs.splitOn ",").mapM parseUnits
  some { formats := fs, strings := ss, is1904 := y = "1" }

def parseItem (tok : String) : Option Framed := do
  match tok.splitOn "," with
  | ["R", w, lw, row, tail] =>
    some { item := .row (← row.toNat?) (← bytesOfHex tail), wide := w = "1", lenW := ← lw.toNat? }
  | ["N", w, lw, id, p] =>
    some { item := .raw (← id.toNat?) (← bytesOfHex p), wide := w = "1", lenW := ← lw.toNat? }
  | ["C", w, lw, col, style, kind, arg, fm] =>
    let content : Content ← match kind with
      | "k" => some .blank
      | "r" => arg.toNat?.map .rk
      | "e" => arg.toNat?.map .err
      | "b" => arg.toNat?.map .bool
      | "f" => arg.toNat?.map .real
      | "s" => (parseUnits arg).map .str
      | "i" => arg.toNat?.map .isst
      | _ => none
    let fmla ← if fm = "-" then some none else (bytesOfHex fm).map some
    some { item := .cell { col := ← col.toNat?, style := ← style.toNat?, content := content, fmla := fmla },
           wide := w = "1", lenW := ← lw.toNat? }
  | _ => none

def fnvStep (h : UInt64) (b : UInt8) : UInt64 := (h ^^^ b.toUInt64) * 0x100000001b3
def fnvBytes (h : UInt64) (bs : List UInt8) : UInt64 := bs.foldl fnvStep h
def fnvString (h : UInt64) (s : String) : UInt64 := s.toUTF8.foldl fnvStep h
def fnvInit : UInt64 := 0xcbf29ce484222325

def recsGo : Nat → Bytes → List String → String
  | 0, _, acc => "fuel " ++ joinSp acc.reverse
  | _+1, [], acc => joinSp ("ok" :: acc.reverse)
  | f+1, b :: bs, acc =>
    match readRecord (b :: bs) with
    | .ok (t, p, rest) => recsGo f rest (s!"{t}:{hexFast p}" :: acc)
    | _ => joinSp ("io" :: acc.reverse)

def sweepId (lo hi : Nat) (wide : Bool) : String := Id.run do
  let mut hb := fnvInit
  let mut hd := fnvInit
  for t in [lo:hi] do
    let enc := frame t [] wide 0
    hb := fnvBytes hb enc
    let d := match readRecord enc with
      | .ok (t', p, rest) => s!"{t'}:{p.length}:{rest.length};"
      | _ => "x;"
    hd := fnvString hd d
  return s!"{hb.toNat} {hd.toNat}"

def sweepLen (lo hi w step : Nat) : String := Id.run do
  let mut hb := fnvInit
  let mut hd := fnvInit
  let mut n := lo
  while n < hi do
    let enc := encLenW w n
    hb := fnvBytes hb enc
    let d := match readLen enc with
      | .ok (n', rest) => s!"{n'}:{rest.length};"
      | _ => "x;"
    hd := fnvString hd d
    n := n + step
  return s!"{hb.toNat} {hd.toNat}"

/-- bounding-box area `Range::from_sparse` would allocate for the cells the model reads from a sheet part
    (`-` when the model does not get that far). Only used by the harness to keep every case below 2^21 cells
    (ledger D37) before the real reader or `dec` builds the dense range. -/
def areaOf (ctx : Ctx) (bs : Bytes) : String :=
  match newReader bs with
  | .ok (_, rest) =>
    match readCells ctx (bs.length + 1) rest 0 with
    | .ok cells =>
      match cells with
      | [] => "0"
      | c0 :: _ =>
        let cells := cells.filter (fun c => c.2.2 ≠ Val.empty)
        let rmin := cells.foldl (fun m c => min m c.1) c0.1
        let rmax := cells.foldl (fun m c => max m c.1) c0.1
        let cmin := cells.foldl (fun m c => min m c.2.1) c0.2.1
        let cmax := cells.foldl (fun m c => max m c.2.1) c0.2.1
        toString ((rmax - rmin + 1) * (cmax - cmin + 1))
    | _ => "-"
  | _ => "-"

def natsOfHex (s : String) : Option (List Nat) := (bytesOfHex s).map (·.map (·.toNat))
def hexOfNats (l : List Nat) : String := hexFast (l.map UInt8.ofNat)

def parseAttr (s : String) : Option (Option (Rels.B × Rels.B)) :=
  if s = "!" then some none
  else match s.splitOn "=" with
    | [k, v] => do some (some (← natsOfHex k, ← natsOfHex v))
    | _ => none

def parseEv (tok : String) : Option Rels.Ev :=
  match tok.splitOn ":" with
  | ["S", n, attrs] => do
    let n ← natsOfHex n
    let as ← if attrs = "" then some [] else (attrs.splitOn ";").mapM parseAttr
    some (.start n as)
  | ["E", n] => (natsOfHex n).map .end_
  | ["O"] => some .other
  | ["F"] => some .eof
  | ["X"] => some .err
  | _ => none

def showRels (l : List (Rels.B × Rels.B)) : String :=
  if l.isEmpty then "ok -" else "ok " ++ ",".intercalate (l.map fun r => hexOfNats r.1 ++ "=" ++ hexOfNats r.2)

def kindName : SheetType → String
  | .workSheet => "WorkSheet" | .dialogSheet => "DialogSheet" | .macroSheet => "MacroSheet"
  | .chartSheet => "ChartSheet" | .vba => "Vba"

def visName : SheetVisible → String
  | .visible => "Visible" | .hidden => "Hidden" | .veryHidden => "VeryHidden"

def showBook (bk : XlsbBook.Book) : String :=
  let rows := (bk.wb.sheets.zip bk.paths).map fun p =>
    s!"{hexOfNats (p.1.name.flatMap Utf8.encodeNat)}:{kindName p.1.typ}:{visName p.1.visible}:{hexOfNats (Utf8.utf8Encode p.2)}"
  s!"ok {if bk.wb.is1904 then 1 else 0} " ++ (if rows.isEmpty then "-" else joinSp rows)

def handle (line : String) : String :=
  match words line with
  | "enc" :: items =>
    match items.mapM parseItem with
    | some fs => hexFast (encodeItems fs)
    | none => "bad-item"
  | ["dec", fmts, y, strs, hex] =>
    match parseCtx fmts y strs, bytesOfHex hex with
    | some ctx, some bs => showRes showRange (decodeSheet ctx bs)
    | _, _ => "bad-args"
  | ["area", fmts, y, strs, hex] =>
    match parseCtx fmts y strs, bytesOfHex hex with
    | some ctx, some bs => areaOf ctx bs
    | _, _ => "bad-args"
  | "spec" :: fmts :: y :: strs :: items =>
    match parseCtx fmts y strs, items.mapM parseItem with
    | some ctx, some fs => showRes showRange (Range.fromSparse (specCells ctx (fs.map (·.item)) 0))
    | _, _ => "bad-args"
  | ["recs", hex] =>
    match bytesOfHex hex with
    | some bs => recsGo (bs.length + 1) bs []
    | none => "bad-args"
  | ["wstr", hex] =>
    match bytesOfHex hex with
    | some bs => showRes (fun r => s!"ok {unitsStr r.1} {r.2}") (wideStr bs)
    | none => "bad-args"
  | ["sst", hex] =>
    match bytesOfHex hex with
    | some bs => showRes (fun l => "ok " ++ (if l.isEmpty then "-" else ",".intercalate (l.map unitsStr))) (readSharedStrings bs)
    | none => "bad-args"
  | ["dim", hex] =>
    match bytesOfHex hex with
    | some bs => let d := parseDimensions bs; s!"{d.1} {d.2.1} {d.2.2.1} {d.2.2.2}"
    | none => "bad-args"
  | "rels" :: cfg :: evs =>
    match evs.mapM parseEv with
    | some es => showRes showRels (Rels.readRels (if cfg = "x" then Rels.xlsxCfg else Rels.xlsbCfg) es)
    | none => "bad-args"
  | "book" :: wb :: present :: evs =>
    match evs.mapM parseEv, (if wb = "none" then some none else (bytesOfHex wb).map some) with
    | some es, some wbPart =>
      let parts : XlsbBook.Parts := match wbPart with
        | some b => [(XlsbBook.wbPath, b)]
        | none => []
      showRes showBook (XlsbBook.openBook (fun _ _ _ => .ok []) parts (if present = "R" then some es else none))
    | _, _ => "bad-args"
  | ["sweep", "id", lo, hi, wide] =>
    match lo.toNat?, hi.toNat? with
    | some a, some b => sweepId a b (wide = "1")
    | _, _ => "bad-args"
  | ["sweep", "len", lo, hi, w, step] =>
    match lo.toNat?, hi.toNat?, w.toNat?, step.toNat? with
    | some a, some b, some c, some d => if d = 0 then "bad-args" else sweepLen a b c d
    | _, _, _, _ => "bad-args"
  | _ => "bad-op"

def main : IO Unit := Wire.run handle
