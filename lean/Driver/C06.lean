import CalVerif.Prim.Wire
/-! Driver for C06. The models whose robustness theorems Props/C06 collects are served by their owners' drivers
    (`drv_c01` references/dimensions, `drv_c10` number-format scanner, `drv_c13` compound files, `drv_c18`
    VBA decompression): the C06 harness starts those next to this executable and compares the OUTCOME CLASS
    (ok / err / panic / fuel) of model and implementation on malformed inputs. This driver only answers `ping`,
    so that `./check C06` builds and probes a driver like every other check. -/

def handle (line : String) : String :=
  match Wire.words line with
  | ["ping"] => "pong"
  | _ => "bad-op"

def main : IO Unit := Wire.run handle
