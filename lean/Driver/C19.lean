import CalVerif.Prim.Wire
import CalVerif.Model.XmlText
import CalVerif.Model.XmlEscape
import CalVerif.Spec.XmlText
/-! Driver for C19: runs XML event lists through the text-reader models.

    request (one line; several requests may be joined by ` | `, the replies are joined the same way):
      si <closing-qname-hex> <ev>…        read_string after the Start of the item  → `ok S:<hex> rest=<n>` | `ok N rest=<n>`
      sst <ev>…                           read_shared_strings                       → `ok <n> <hex> <hex> …`
      cell <t|-> <hex,hex,…|-> <ev>…      children of one <c t=…> (strings = table) → `ok str:<hex>` | `ok shared:<hex>` | `ok empty` | `ok other`
      fmla <ev>…                          formula text of one <c> (next_formula)    → `ok str:<hex> rest=<n>`
      odsval <start ev of the cell> <ev>…  get_datatype: attribute loop + text path  → `ok str:<hex>` | `ok other`
      odscell <ev>…                       get_datatype text path                    → `ok <hex> rest=<n>`
      unescape <hex utf-8>                quick-xml escape::unescape                → `ok <hex>` | `err:<class>`
      cdatasplit <hex>                    the writer's CDATA cut                    → `ok <hex> <hex> …`
      wide <hex>                          wide_str                                  → `ok <units as LE bytes hex> <str_len>`
    errors: `err:<class>` | `panic:<site>` | `fuel`
    event tokens: S<qname-hex>[,<key-hex>=<val-hex>]…  E<qname-hex>  M<qname-hex>[,…] (empty element: expanded to
    Start+End, the readers run with expand_empty_elements)  T<hex>[~<spelling digits, ignored>]  C<hex>  O ;
    an empty text is `T` alone -/

open XmlText

def strOfHex (h : String) : Option String := do
  let bs ← Wire.bytesOfHex h
  String.fromUTF8? (ByteArray.mk bs.toArray)

/-- split a qualified name at its first colon -/
def nameOf (q : String) : Name :=
  match q.splitOn ":" with
  | [l] => ⟨none, l⟩
  | p :: rest => ⟨some p, ":".intercalate rest⟩
  | [] => ⟨none, ""⟩

def hexOrEmpty (h : String) : Option (List UInt8) := if h.isEmpty then some [] else Wire.bytesOfHex h

def parseAttr (a : String) : Option (String × Txt) :=
  match a.splitOn "=" with
  | [k, v] => do
    let k ← strOfHex k
    let v ← hexOrEmpty v
    pure (k, v)
  | _ => none

def parseTag (body : String) : Option (Name × List (String × Txt)) :=
  match body.splitOn "," with
  | n :: attrs => do
    let q ← strOfHex n
    let as ← attrs.mapM parseAttr
    pure (nameOf q, as)
  | [] => none

def parseEv (tok : String) : Option (List Ev) :=
  let body := (tok.drop 1).toString
  match tok.front with
  | 'S' => (parseTag body).map fun (n, a) => [.start n a]
  | 'M' => (parseTag body).map fun (n, a) => [.start n a, .end_ n]
  | 'E' => (strOfHex body).map fun q => [.end_ (nameOf q)]
  | 'T' => (hexOrEmpty ((body.splitOn "~").headD "")).map fun b => [.text b]   -- `~…`: spelling hints for the writer
  | 'C' => (hexOrEmpty body).map fun b => [.cdata b]
  | 'O' => some [.other]
  | _ => none

def parseEvs (toks : List String) : Option (List Ev) := (toks.mapM parseEv).map List.flatten

def hx (b : List UInt8) : String := Wire.hexOrDash b

def showRes {α : Type} (f : α → String) : Res α → String
  | .ok a => "ok " ++ f a
  | .err e => "err:" ++ e
  | .panic s => "panic:" ++ s
  | .outOfFuel => "fuel"

def showCellVal : CellVal → String
  | .empty => "empty"
  | .str s => "str:" ++ hx s
  | .shared s => "shared:" ++ hx s
  | .other => "other"

def unitsBytes (us : List UInt16) : List UInt8 :=
  us.flatMap fun u => [UInt8.ofNat (u.toNat % 256), UInt8.ofNat (u.toNat / 256)]

def handleOne (ws : List String) : String :=
  match ws with
  | "si" :: closing :: evs =>
    match strOfHex closing, parseEvs evs with
    | some q, some es =>
      showRes (fun (v, rest) => (match v with | some s => "S:" ++ hx s | none => "N") ++ s!" rest={rest.length}")
        (readString (nameOf q) es)
    | _, _ => "bad-request"
  | "sst" :: evs =>
    match parseEvs evs with
    | some es => showRes (fun l => Wire.joinSp (toString l.length :: l.map hx)) (readSharedStrings es)
    | none => "bad-request"
  | "cell" :: t :: strs :: evs =>
    let strings := if strs = "-" then some [] else (strs.splitOn ",").mapM hexOrEmpty
    match strings, parseEvs evs with
    | some ss, some es =>
      showRes (fun (v, _) => showCellVal v) (cellText (if t = "-" then none else some t) ss es)
    | _, _ => "bad-request"
  | "fmla" :: evs =>
    match parseEvs evs with
    | some es => showRes (fun (s, rest) => "str:" ++ hx s ++ s!" rest={rest.length}") (formulaText es)
    | none => "bad-request"
  | "odsval" :: evs =>
    match parseEvs evs with
    | some (.start _ attrs :: es) =>
      showRes (fun v => match v with | some s => "str:" ++ hx s | none => "other") (odsCellValue attrs es)
    | _ => "bad-request"
  | "odscell" :: evs =>
    match parseEvs evs with
    | some es => showRes (fun (s, rest) => hx s ++ s!" rest={rest.length}") (odsCellText es)
    | none => "bad-request"
  | ["unescape", h] =>
    match (hexOrEmpty h).bind fun b => String.fromUTF8? (ByteArray.mk b.toArray) with
    | some str => showRes (fun r => hx (String.ofList r).toUTF8.toList) (XmlEscape.unescape str.toList)
    | none => "bad-request"
  | ["cdatasplit", h] =>
    match hexOrEmpty h with
    | some b => "ok " ++ Wire.joinSp ((cdataSplit b).map hx)
    | none => "bad-request"
  | ["wide", h] =>
    match Wire.bytesOfHex h with
    | some b => showRes (fun (us, n) => hx (unitsBytes us) ++ s!" {n}") (wideStr b)
    | none => "bad-request"
  | _ => "bad-request"

def splitBar (ws : List String) : List (List String) :=
  let rec go (ws : List String) (cur : List String) (acc : List (List String)) : List (List String) :=
    match ws with
    | [] => (cur.reverse :: acc).reverse
    | "|" :: r => go r [] (cur.reverse :: acc)
    | w :: r => go r (w :: cur) acc
  go ws [] []

def handle (line : String) : String :=
  " | ".intercalate ((splitBar (Wire.words line)).map handleOne)

def main : IO Unit := Wire.run handle
