import CalVerif.Prim.Wire
import CalVerif.Model.Formats
import CalVerif.Model.FormatsDecode
import CalVerif.Spec.NumFmt
/-! Driver for C10 (number formats).  One request line → one reply line.

    detect <hex utf8>            → Other | DateTime | TimeDelta | panic          (`Formats.detect`, the current arm order)
    detectd14 <hex utf8>         → same, arm order of the pinned snapshot        (`Formats.detectD14`)
    bycode <n>                   → tag                                          (`Formats.builtinByCode`)
    byid <hex bytes>             → tag                                          (`Formats.builtinById`)
    fmtf64 <bits> <-|O|D|T> <0|1>→ F:<bits> | D:<bits>:<dt|td>:<0|1>             (`Formats.formatF64`, bits in decimal)
    fmti64 <int>  <-|O|D|T> <0|1>→ I:<int>  | DI:<int>:<dt|td>:<0|1>             (`Formats.formatI64`)
    gram <sec>;<sec>;…           → <hex render> <classify> <wf 0|1> <detect>     (Spec: `render`, `classify`, `WF`)
         sec = tokens joined by `,`; token = kind letter (L E P F B T D N G) followed by the hex of its payload
    sweep <len> <lo> <hi>        → FNV-64 (hex) over the result letters (O D T P) of `detect` on the strings number
                                   lo ≤ i < hi of length `len` over the 20-symbol alphabet (i written base 20, most
                                   significant symbol first)
    sweepcodes <lo> <hi>         → FNV-64 over the result letters of `builtinByCode` for lo ≤ n < hi
    styles <xlsx|xlsb|xls> <defs> <xfs>
                                 → one result letter per XF (`Formats.xlsxStyles/xlsbStyles/xlsStyles`), or `panic`;
                                   defs = `id:hexfmt,…` (or `-`), xfs = `id,…` (or `-`); for xlsx the ids are sent to
                                   the model as their decimal text, as the reader sees them
    xlsxf <hex payload>          → ok:<ifmt> | err                               (`Formats.xlsParseXf`)
    xlsfmt <hex payload>         → ok:<ifmt>:<O|D|T> | err                       (`Formats.xlsParseFormat` + `detect`)
    xlsstream <hex stream>       → class letters of `self.formats` | err:…       (`Formats.xlsStylesOfStream`)
    xlsbstyles <hex part>        → class letters | err:…                         (`Formats.xlsbStylesOfBytes`)
    xlsxstyles <event> <event> … → class letters | err:…                         (`Formats.xlsxStylesOfEvents`)
         event = `s:<name>:<k>=<hex>,…` | `e:<name>` | `t:<hex>` | `c:<hex>` | `o`  (`:` in names written `.`)
    xlsxcell <class letters of the XF table> <hex of the s attribute | absent>
                                 → D | T | N (plain number: class Other or index past the table)   (`Formats.xlsxCellFormat`)
    sweepids <prefix hex> <suffix hex> <lo> <hi>
                                 → FNV-64 over the result letters of `builtinById (prefix ++ decimal n ++ suffix)` -/

open Formats

def letter : CellFormat → UInt8
  | .other => 79      -- 'O'
  | .dateTime => 68   -- 'D'
  | .timeDelta => 84  -- 'T'

def resLetter : Res CellFormat → UInt8
  | .ok f => letter f
  | _ => 80           -- 'P'

def resTag : Res CellFormat → String
  | .ok f => f.tag
  | .err e => "err:" ++ e
  | .panic _ => "panic"
  | .outOfFuel => "fuel"

def fnvStep (h : UInt64) (b : UInt8) : UInt64 := (h ^^^ b.toUInt64) * 0x100000001b3
def fnvInit : UInt64 := 0xcbf29ce484222325

def hex64 (v : UInt64) : String :=
  String.ofList ((List.range 16).map fun i => Wire.hexDigit ((v.toNat >>> (4 * (15 - i))) % 16))

/-- the significant alphabet, in the fixed order shared with the Rust side -/
def alphabet : Array Char :=
  #['"', '\\', '_', ';', '[', ']', 'a', 'A', 'p', 'm', 'M', '/', 'd', 'h', 'H', 'y', 's', 'S', '0', 'x']

/-- string number `i` of length `len`: base-20 digits, most significant first -/
def nthString (len i : Nat) : List Char := Id.run do
  let mut acc : List Char := []
  let mut v := i
  for _ in [0:len] do
    acc := alphabet[v % 20]! :: acc
    v := v / 20
  return acc

def sweep (len lo hi : Nat) : UInt64 := Id.run do
  let mut h := fnvInit
  for i in [lo:hi] do
    h := fnvStep h (resLetter (detect (nthString len i)))
  return h

def sweepCodes (lo hi : Nat) : UInt64 := Id.run do
  let mut h := fnvInit
  for n in [lo:hi] do
    h := fnvStep h (letter (builtinByCode n))
  return h

def sweepIds (pre suf : List UInt8) (lo hi : Nat) : UInt64 := Id.run do
  let mut h := fnvInit
  for n in [lo:hi] do
    h := fnvStep h (letter (builtinById (pre ++ NumFmt.decimal n ++ suf)))
  return h

def charsOfHex (s : String) : Option (List Char) := do
  let bs ← Wire.bytesOfHex s
  let str ← String.fromUTF8? (ByteArray.mk bs.toArray)
  pure str.toList

def hexOfChars (l : List Char) : String :=
  Wire.hexOrDash (String.ofList l).toUTF8.toList

def fmtArg : String → Option (Option CellFormat)
  | "-" => some none
  | "O" => some (some .other)
  | "D" => some (some .dateTime)
  | "T" => some (some .timeDelta)
  | _ => none

def kindTag : DtKind → String
  | .dateTime => "dt"
  | .timeDelta => "td"

def b01 (b : Bool) : String := if b then "1" else "0"

def showNum : NumData → String
  | .int v => s!"I:{v}"
  | .float b => s!"F:{b.toNat}"
  | .dateTime (.bits b) k f => s!"D:{b.toNat}:{kindTag k}:{b01 f}"
  | .dateTime (.ofI64 v) k f => s!"DI:{v}:{kindTag k}:{b01 f}"

def parseTok (s : String) : Option NumFmt.Tok :=
  match s.toList with
  | [] => none
  | k :: payload => do
    let cs ← if payload.isEmpty then some [] else charsOfHex (String.ofList payload)
    let one : Option Char := match cs with | [c] => some c | _ => none
    match k with
    | 'L' => some (.lit cs)
    | 'E' => one.map .esc
    | 'P' => one.map .pad
    | 'F' => one.map .fill
    | 'B' => some (.brk cs)
    | 'T' => some (.elapsed cs)
    | 'D' => some (.dateTok cs)
    | 'N' => one.map .num
    | 'G' => some (.general cs)
    | _ => none

def parseSection (s : String) : Option (List NumFmt.Tok) :=
  if s.isEmpty then some [] else (s.splitOn ",").mapM parseTok

def parseFmt (s : String) : Option NumFmt.Fmt :=
  match (s.splitOn ";").mapM parseSection with
  | some (first :: rest) => some { first := first, rest := rest }
  | _ => none

def parseDefs (s : String) : Option (List (Nat × List Char)) :=
  if s == "-" then some [] else
  (s.splitOn ",").mapM fun d =>
    match d.splitOn ":" with
    | [id, h] => do
      let n ← id.toNat?
      let cs ← charsOfHex h
      pure (n, cs)
    | _ => none

def parseXfs (s : String) : Option (List Nat) :=
  if s == "-" then some [] else (s.splitOn ",").mapM String.toNat?

def stylesReply (r : Res (List CellFormat)) : String :=
  match r with
  | .ok fs => if fs.isEmpty then "-" else String.ofList (fs.map fun f => Char.ofNat (letter f).toNat)
  | .err e => "err:" ++ e
  | .panic _ => "panic"
  | .outOfFuel => "fuel"

def evName (s : String) : List Char := s.toList.map fun c => if c == '.' then ':' else c

def parseSEv (w : String) : Option SEv :=
  match w.splitOn ":" with
  | ["s", n, a] =>
    if a == "-" then some (.start (evName n) [])
    else do
      let attrs ← (a.splitOn ",").mapM fun kv =>
        match kv.splitOn "=" with
        | [k, v] => (Wire.bytesOfHex v).map fun b => (evName k, b)
        | _ => none
      pure (.start (evName n) attrs)
  | ["e", n] => some (.end_ (evName n))
  | ["t", _] => some .other
  | ["c", _] => some .other
  | ["o"] => some .other
  | _ => none

def handle (line : String) : String :=
  match Wire.words line with
  | ["detect", h] => match charsOfHex h with
    | some cs => resTag (detect cs)
    | none => "bad-utf8"
  | ["detectd14", h] => match charsOfHex h with
    | some cs => resTag (detectD14 cs)
    | none => "bad-utf8"
  | ["bycode", n] => match n.toNat? with
    | some n => (builtinByCode n).tag
    | none => "bad-op"
  | ["byid", h] => match Wire.bytesOfHex h with
    | some bs => (builtinById bs).tag
    | none => "bad-op"
  | ["fmtf64", v, f, d] => match v.toNat?, fmtArg f with
    | some v, some f => showNum (formatF64 (UInt64.ofNat v) f (d == "1"))
    | _, _ => "bad-op"
  | ["fmti64", v, f, d] => match v.toInt?, fmtArg f with
    | some v, some f => showNum (formatI64 v f (d == "1"))
    | _, _ => "bad-op"
  | ["gram", g] => match parseFmt g with
    | some f =>
      let text := NumFmt.render f
      s!"{hexOfChars text} {(NumFmt.classify f).tag} {b01 (decide (NumFmt.WF f))} {resTag (detect text)}"
    | none => "bad-op"
  | ["gram"] =>
    let f : NumFmt.Fmt := { first := [], rest := [] }
    s!"- {(NumFmt.classify f).tag} {b01 (decide (NumFmt.WF f))} {resTag (detect [])}"
  | ["styles", kind, defs, xfs] => match parseDefs defs, parseXfs xfs with
    | some defs, some xfs =>
      if kind == "xlsx" then
        stylesReply (xlsxStylesRaw (defs.map fun d => (NumFmt.decimal d.1, d.2)) (xfs.map fun x => some (NumFmt.decimal x)))
      else if kind == "xlsb" then stylesReply (xlsbStyles defs xfs)
      else if kind == "xls" then stylesReply (xlsStyles defs xfs)
      else "bad-op"
    | _, _ => "bad-op"
  | ["xlsxf", h] => match Wire.bytesOfHex h with
    | some b => match xlsParseXf b with
      | .ok n => s!"ok:{n}"
      | _ => "err"
    | none => "bad-op"
  | ["xlsfmt", h] => match Wire.bytesOfHex h with
    | some b => match xlsParseFormat b with
      | .ok (i, cs) => match detect cs with
        | .ok f => s!"ok:{i}:{Char.ofNat (letter f).toNat}"
        | _ => "panic"
      | _ => "err"
    | none => "bad-op"
  | ["xlsstream", h] => match Wire.bytesOfHex h with
    | some b => stylesReply (xlsStylesOfStream b)
    | none => "bad-op"
  | ["xlsbstyles", h] => match Wire.bytesOfHex h with
    | some b => stylesReply (xlsbStylesOfBytes b)
    | none => "bad-op"
  | "xlsxstyles" :: evs => match evs.mapM parseSEv with
    | some evs => stylesReply (xlsxStylesOfEvents evs)
    | none => "bad-op"
  | ["xlsxcell", tbl, sattr] =>
    let fmts : List CellFormat := tbl.toList.filterMap fun c =>
      if c == 'D' then some .dateTime else if c == 'T' then some .timeDelta else if c == 'O' then some .other else none
    let sv : Option (Option (List UInt8)) := if sattr == "absent" then some none else (Wire.bytesOfHex sattr).map some
    match sv with
    | some sv => match xlsxCellFormat fmts sv with
      | some .dateTime => "D"
      | some .timeDelta => "T"
      | _ => "N"
    | none => "bad-op"
  | ["sweep", len, lo, hi] => match len.toNat?, lo.toNat?, hi.toNat? with
    | some len, some lo, some hi => hex64 (sweep len lo hi)
    | _, _, _ => "bad-op"
  | ["sweepcodes", lo, hi] => match lo.toNat?, hi.toNat? with
    | some lo, some hi => hex64 (sweepCodes lo hi)
    | _, _ => "bad-op"
  | ["sweepids", p, s, lo, hi] => match Wire.bytesOfHex p, Wire.bytesOfHex s, lo.toNat?, hi.toNat? with
    | some p, some s, some lo, some hi => hex64 (sweepIds p s lo hi)
    | _, _, _, _ => "bad-op"
  | _ => "bad-op"

def main : IO Unit := Wire.run handle
