import CalVerif.Prim.Wire
import CalVerif.Model.Range
import CalVerif.Model.RangeIter
/-! Driver for C05: runs an operation history through the `Range` model (values = `usize`)
    and prints the canonical dump after every operation.

    request : `hist <op>;<op>;…`   op = `N,sr,sc,er,ec` | `E` | `F,r,c,v,r,c,v,…` | `S,row,col,v` | `R,sr,sc,er,ec` | `X,i,j,v` (`range[(i, j)] = v`, relative)
    reply   : `<dump>;<dump>;…`    dump = `panic` (state unchanged) or the observable state

    request : `iter <pat> <op>;<op>;…`   pat = string of `f` (`next`) / `b` (`next_back`) / `n` `N` (`nth(1)`, `nth(2)`) / `m` `M` (`nth_back(1)`, `nth_back(2)`)
    reply   : `C=<trace> L=<len> U=<trace> R=<trace> LR=<rows left>` — the three iterators of the FINAL state of the history
              consumed by that pattern; trace item = `f<r>:<c>:<v>` / `b…` / `f-` (None); rows as `f[v.v.v]` -/

open Range

def showOpt (o : Option Nat) : String := match o with | some v => toString v | none => "-"

def showTriples (l : List (Nat × Nat × Nat)) : String :=
  ",".intercalate (l.map fun c => s!"{c.1}:{c.2.1}:{c.2.2}")

def dump (r : Rng Nat) : String :=
  let se := match r.start, r.end_ with
    | some s, some e => s!"S={s.1},{s.2} E={e.1},{e.2}"
    | _, _ => "S=- E=-"
  let h := r.height
  let w := r.width
  let rowsS := "/".intercalate ((rows r).map fun row => ",".intercalate (row.map toString))
  let (sr, sc) := r.start.getD (0, 0)
  let (er, ec) := r.end_.getD (0, 0)
  let prow := [sr - 1, sr, er, min (er + 1) 4294967295]
  let pcol := [sc - 1, sc, ec, min (ec + 1) 4294967295]
  let gv := ",".intercalate (prow.flatMap fun a => pcol.map fun b => showOpt (getValue r a b))
  let rel := [(0, 0), (h - 1, w - 1), (h, 0), (0, w), (18446744073709551615, 0), (0, 18446744073709551615),
    (9223372036854775808, 1), (4611686018427387904, 3)]
  let g := ",".intercalate (rel.map fun p => showOpt (get r p.1 p.2))
  let ix := ",".intercalate (rel.map fun p => match index r p.1 p.2 with | .ok v => toString v | _ => "!")
  let showRowRes (x : Res (List Nat)) := match x with
    | .ok row => "[" ++ ".".intercalate (row.map toString) ++ "]"
    | _ => "!"
  let ir := ",".intercalate ([0, h - 1, h, h + 3].map fun i => showRowRes (indexRow r i))
  let hd := match firstRow r with
    | some row => "[" ++ ".".intercalate (row.map toString) ++ "]"
    | none => "-"
  s!"{se} H={h} W={w} ROWS={rowsS} CELLS={showTriples (cells r)} USED={showTriples (usedCells r)} GV={gv} G={g} IX={ix} IR={ir} HD={hd}"

def parseNats (l : List String) : Option (List Nat) := l.mapM String.toNat?

def triples : List Nat → Option (List (Nat × Nat × Nat))
  | [] => some []
  | a :: b :: c :: rest => (triples rest).map ((a, b, c) :: ·)
  | _ => none

def applyOp (r : Rng Nat) (op : String) : Option (Res (Rng Nat)) :=
  match op.splitOn "," with
  | ["E"] => some (.ok empty)
  | "N" :: args => match parseNats args with
    | some [a, b, c, d] => some (new a b c d)
    | _ => none
  | "S" :: args => match parseNats args with
    | some [a, b, v] => some (setValue r a b v)
    | _ => none
  | "X" :: args => match parseNats args with
    | some [a, b, v] => some (indexSet r a b v)
    | _ => none
  | "R" :: args => match parseNats args with
    | some [a, b, c, d] => some (range r a b c d)
    | _ => none
  | "F" :: args => match parseNats args with
    | some ns => (triples ns).map fromSparse
    | none => none
  | _ => none

def runHist (ops : List String) : String :=
  let rec go (r : Rng Nat) (ops : List String) (acc : List String) : List String :=
    match ops with
    | [] => acc.reverse
    | op :: rest =>
      match applyOp r op with
      | none => ("bad-op" :: acc).reverse
      | some (.ok r') => go r' rest (dump r' :: acc)
      | some _ => go r rest ("panic" :: acc)
  ";".intercalate (go empty ops [])

def finalState (ops : List String) : Option (Rng Nat) :=
  let rec go (r : Rng Nat) : List String → Option (Rng Nat)
    | [] => some r
    | op :: rest =>
      match applyOp r op with
      | none => none
      | some (.ok r') => go r' rest
      | some _ => go r rest
  go empty ops

def showItem (d : Bool) (o : Option (Nat × Nat × Nat)) : String :=
  (if d then "f" else "b") ++ match o with
    | some c => s!"{c.1}:{c.2.1}:{c.2.2}"
    | none => "-"

def showRow (d : Bool) (o : Option (List Nat)) : String :=
  (if d then "f" else "b") ++ match o with
    | some row => "[" ++ ".".intercalate (row.map toString) ++ "]"
    | none => "-"

def runIter (pat : String) (ops : List String) : String :=
  match finalState ops with
  | none => "bad-op"
  | some r =>
    let acts : List Act := pat.toList.map fun ch =>
      match ch with
      | 'f' => Act.next | 'b' => Act.nextBack | 'n' => Act.nth 1 | 'N' => Act.nth 2
      | 'm' => Act.nthBack 1 | _ => Act.nthBack 2
    let ex := acts.flatMap Act.expand
    let p := ex.map (·.1)
    let flags := ex.map (·.2)
    let c := CellIt.consume CellIt.next CellIt.nextBack p (cellsIter r)
    let u := CellIt.consume CellIt.nextUsed CellIt.nextBackUsed p (cellsIter r)
    let w := rowsConsume p (rows r)
    let tr (t : List (Bool × Option (Nat × Nat × Nat))) := ",".intercalate ((visible flags t).map fun x => showItem x.1 x.2)
    s!"C={tr c.1} L={c.2.len} U={tr u.1} R={",".intercalate ((visible flags w.1).map fun x => showRow x.1 x.2)} LR={w.2.length}"

def handle (line : String) : String :=
  match Wire.words line with
  | ["hist", ops] => runHist (ops.splitOn ";")
  | ["iter", pat, ops] => runIter pat (ops.splitOn ";")
  | _ => "bad-op"

def main : IO Unit := Wire.run handle
