import CalVerif.Prim.Wire
import CalVerif.Model.Password
import CalVerif.Spec.PasswordSpec
/-! Driver for C20 (password detection). One request line → one reply line.

    `ooxml <hex file>`                         → `<tag>`                 `ooxmlCheck` on the bytes of the file
    `xlsfile <hex file>`                       → `<tag>`                 `xlsOpen` on the bytes of the file
    `xlsfilecp <0|1> <hex file>`               → `<tag>`                 `xlsOpenWith` (forced code page known: 1 / unknown: 0)
    `xls <hex workbook stream> <recs>`         → `<tagS> <tagR>`         `xlsGlobalsStream` on the stream bytes,
                                                                         `xlsGlobals` on the record list
          recs: `,`-separated `<typ>:<hex payload>` (`-` = empty payload); `_` = no record
    `xlsenc <pre> <typ> <hex rest> <post>`     → `<hex stream> <tagS> <tagR>`
          the stream `frameAll (pre ++ [filepass typ rest] ++ post)` built by the Lean encoder of the theorems,
          and the two model outcomes on it
    `ods <events>`                             → `<tag>`                 `odsManifest` on an event list
          events: `,`-separated `s<hex qname>` | `o` | `e`; `_` = none
    `manifest <prolog> <hex root> <gap> <entries>` → `<events> <tag> <spec>`
          entries: `;`-separated, each `,`-separated children `T` | `L<hex qname>` | `E[<hex>+<hex>…]`,
          `-` = entry without children, `_` = no entry; `<spec>` = `1` if the manifest declares encryption
    tags: `password` | `pass` | `err:<class>` | `panic` | `fuel` -/

open Password

/-- outcome tag without blanks (error classes of the record framing contain spaces) -/
def tg (o : Outcome) : String := o.tag.replace " " "_"

def splitList (s sep none : String) : List String := if s = none then [] else s.splitOn sep

def parseStr (hex : String) : Option String := do
  let b ← Wire.bytesOfHex hex
  String.fromUTF8? (ByteArray.mk b.toArray)

def parseRec (s : String) : Option Biff.Rec :=
  match s.splitOn ":" with
  | [t, d] => do some ⟨← t.toNat?, ← Wire.bytesOfHex d, []⟩
  | _ => none

def parseRecs (s : String) : Option (List Biff.Rec) := (splitList s "," "_").mapM parseRec

def parseEv (s : String) : Option Ev :=
  if s = "o" then some .other
  else if s = "e" then some .error
  else if s.startsWith "s" then (parseStr (s.drop 1).toString).map Ev.start
  else none

def hexOfString (s : String) : String := Wire.hexOrDash s.toUTF8.toList

def showEv : Ev → String
  | .start q => "s" ++ hexOfString q
  | .other => "o"
  | .error => "e"

def showEvs (l : List Ev) : String := if l.isEmpty then "_" else ",".intercalate (l.map showEv)

def parseChild (s : String) : Option Child :=
  if s = "T" then some .text
  else if s.startsWith "L" then (parseStr (s.drop 1).toString).map Child.elem
  else if s.startsWith "E" then
    let r := (s.drop 1).toString
    ((if r = "" then [] else r.splitOn "+").mapM parseStr).map Child.enc
  else none

def parseEntry (s : String) : Option Entry := ((splitList s "," "-").mapM parseChild).map Entry.mk

def handle (line : String) : String :=
  match Wire.words line with
  | ["ooxml", hex] =>
    match Wire.bytesOfHex hex with
    | some file => tg (ooxmlCheck file)
    | none => "bad-op"
  | ["xlsfile", hex] =>
    match Wire.bytesOfHex hex with
    | some file => tg (xlsOpen Arms.quiet file)
    | none => "bad-op"
  | ["xlsfilecp", ok, hex] =>
    match Wire.bytesOfHex hex with
    | some file => tg (xlsOpenWith (ok = "1") Arms.quiet file)
    | none => "bad-op"
  | ["xls", hex, recs] =>
    match Wire.bytesOfHex hex, parseRecs recs with
    | some s, some rs => tg (xlsGlobalsStream Arms.quiet (s.length + 1) s) ++ " " ++ tg (xlsGlobals Arms.quiet rs)
    | _, _ => "bad-op"
  | ["xlsenc", pre, typ, rest, post] =>
    match parseRecs pre, typ.toNat?, Wire.bytesOfHex rest, parseRecs post with
    | some p, some t, some r, some q =>
      let rs := p ++ [filepass t r] ++ q
      let s := frameAll rs
      Wire.hexOrDash s ++ " " ++ tg (xlsGlobalsStream Arms.quiet (s.length + 1) s) ++ " " ++ tg (xlsGlobals Arms.quiet rs)
    | _, _, _, _ => "bad-op"
  | ["ods", evs] =>
    match (splitList evs "," "_").mapM parseEv with
    | some l => tg (odsManifest l)
    | none => "bad-op"
  | ["manifest", prolog, root, gap, entries] =>
    match prolog.toNat?, parseStr root, gap.toNat?, (splitList entries ";" "_").mapM parseEntry with
    | some p, some r, some g, some es =>
      let m : Manifest := ⟨p, r, es, g⟩
      let evs := manifestEvents m
      showEvs evs ++ " " ++ tg (odsManifest evs) ++ " " ++ (if m.declaresEncryption then "1" else "0")
    | _, _, _, _ => "bad-op"
  | _ => "bad-op"

def main : IO Unit := Wire.run handle
