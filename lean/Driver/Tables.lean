import CalVerif.Model.Formats
import CalVerif.Model.Metadata
import CalVerif.Model.Ptg
import CalVerif.Model.XlsxCells
import CalVerif.Model.Xlsb
import CalVerif.Gen.BErrTables
import CalVerif.Gen.Ftab
/-! Behavioural tie of the translated tables (`CalVerif/Gen/*.lean`).

    The translator (`tools/extract_tables.py`) reads the tables from the *syntax* of `/repo/src`. When a table has
    been rewritten into a shape the translator does not know, the committed `Gen` file is kept and this program
    prints, for every table, the probe points and what the model functions that consume the table answer there;
    `harness/src/bin/tabprobe.rs` evaluates the implementation at the same points and reports every difference.
    Finite domains are enumerated completely (`code`, `xlserr`, `xlsberr`, `xlsmeta`, `ftab`): agreement there IS
    equality of the two functions. String- and u32-keyed tables (`id`, `xlsxerr`, `xlsxvis`, `xlsxkind`,
    `xlsbkind`, `xlsbvis`) are probed at every key of the table plus near misses and a list of plausible other
    keys: a sampled tie, labelled as such.

    One line per point: `<table> <point> <answer>`; strings are written as the hex of their UTF-8 bytes (`-` = the
    empty string), a missing entry (the code's error / default arm) as `-`. -/



def hexDigit (n : Nat) : Char := "0123456789abcdef".toList.getD n '0'
def hexOfBytes (bs : List UInt8) : String :=
  if bs.isEmpty then "-" else String.ofList (bs.flatMap fun b => [hexDigit (b.toNat / 16), hexDigit (b.toNat % 16)])
def hexOfString (s : String) : String := hexOfBytes s.toUTF8.toList

def fmtTag : CellFormat → String
  | .other => "Other" | .dateTime => "DateTime" | .timeDelta => "TimeDelta"
def errTag : CellErrorType → String
  | .div0 => "Div0" | .nA => "NA" | .name => "Name" | .null => "Null" | .num => "Num" | .ref => "Ref"
  | .value => "Value" | .gettingData => "GettingData"
def visTag : SheetVisible → String
  | .visible => "Visible" | .hidden => "Hidden" | .veryHidden => "VeryHidden"
def kindTag : SheetType → String
  | .workSheet => "WorkSheet" | .dialogSheet => "DialogSheet" | .macroSheet => "MacroSheet"
  | .chartSheet => "ChartSheet" | .vba => "Vba"
def optTag {α : Type} (f : α → String) : Option α → String
  | some a => f a | none => "-"

/-- near misses of a key: case changes, a blank before / after, one character less / more -/
def variants (k : String) : List String :=
  [k, k.toUpper, k.toLower, k.capitalize, " " ++ k, k ++ " ", (k.dropEnd 1).toString, (k.drop 1).toString, k ++ "s", k ++ k]

def dedup (l : List String) : List String := l.foldl (fun acc s => if acc.contains s then acc else acc ++ [s]) []

def otherErrors : List String :=
  ["#SPILL!", "#CALC!", "#FIELD!", "#BLOCKED!", "#UNKNOWN!", "#CONNECT!", "#BUSY!", "#PYTHON!", "#EXTERNAL!", "#N/A N/A", "",
   "#", "#DIV/0", "DIV/0!", "#div/0!", "#NULL", "#REF", "#NAME", "#NUM", "#VALUE", "#N/A!", "#GETTING_DATA!", "0", "error"]
def otherStates : List String := ["", "0", "1", "2", "true", "false", "none", "show", "veryhidden", "very_hidden", "VeryHidden", "Visible", "Hidden", "collapsed"]
def otherFolders : List String :=
  ["worksheet", "chartsheet", "dialogsheet", "macrosheet", "sheets", "charts", "media", "theme", "drawings", "tables",
   "externalLinks", "pivotTables", "Worksheets", "WORKSHEETS", "ctrlProps", "vba", "modules", "xl"]
def otherIds : List String :=
  (List.range 200).map toString ++ ["014", " 14", "14 ", "+14", "-14", "1e1", "0x0e", "", "165", "176", "255", "256", "65535", "65536", "4294967310"]

def main : IO Unit := do
  let out ← IO.getStdout
  -- exhaustive: builtin_format_by_code over u16
  for n in List.range 65536 do
    out.putStrLn s!"code {n} {fmtTag (Formats.builtinByCode n)}"
  -- sampled: builtin_format_by_id over byte strings
  let idKeys := Gen.builtinByIdTable.map (fun e => hexOfBytes e.1)
  let idPts := idKeys ++ (otherIds.map hexOfString)
  for h in dedup idPts do
    -- decode the hex back through the same key bytes
    let bytes : List UInt8 :=
      if h == "-" then [] else
        let cs := h.toList
        (List.range (cs.length / 2)).map fun i =>
          let d (c : Char) : Nat := if c.isDigit then c.toNat - 48 else c.toNat - 87
          UInt8.ofNat (d (cs.getD (2 * i) '0') * 16 + d (cs.getD (2 * i + 1) '0'))
    out.putStrLn s!"id {h} {fmtTag (Formats.builtinById bytes)}"
  -- exhaustive: BErr bytes
  for b in List.range 256 do
    out.putStrLn s!"xlserr {b} {optTag errTag (Gen.xlsErrTable.lookup b)}"
  for b in List.range 256 do
    out.putStrLn s!"xlsberr {b} {optTag errTag (Gen.xlsbErrTable.lookup b)}"
  -- exhaustive: BoundSheet8 (hsState byte, dt byte)
  for hs in List.range 256 do
    let vis := Gen.xlsVisTable.lookup (hs &&& Gen.xlsVisMask)
    for dt in List.range 256 do
      let ans := match vis, Gen.xlsKindTable.lookup dt with
        | some v, some k => s!"{visTag v} {kindTag k}"
        | _, _ => "-"
      out.putStrLn s!"xlsmeta {hs} {dt} {ans}"
  -- exhaustive: the function table
  out.putStrLn s!"ftablen {Gen.ftabLen} -"
  for i in List.range (max Gen.ftabLen (max Gen.ftab.size Gen.ftabArgc.size)) do
    out.putStrLn s!"ftab {i} {hexOfString (Gen.ftab.getD i "")} {(Gen.ftabArgc.getD i 0)}"
  -- sampled: string keyed tables
  let errKeys := Gen.xlsxErrorFromStr.map (fun e => String.ofList (e.1.map fun n => Char.ofNat n))
  for k in dedup (errKeys.flatMap variants ++ otherErrors) do
    out.putStrLn s!"xlsxerr {hexOfString k} {optTag errTag (XlsxCells.parseError (k.toUTF8.toList.map (·.toNat)))}"
  for k in dedup ((Gen.xlsxVisTable.map (·.1)).flatMap variants ++ otherStates) do
    out.putStrLn s!"xlsxvis {hexOfString k} {optTag visTag (Gen.xlsxVisTable.lookup k)}"
  for k in dedup ((Gen.xlsxKindTable.map (·.1)).flatMap variants ++ otherFolders) do
    out.putStrLn s!"xlsxkind {hexOfString k} {optTag kindTag (Gen.xlsxKindTable.lookup k)}"
  for k in dedup ((Gen.xlsbKindTable.map (·.1)).flatMap variants ++ otherFolders) do
    out.putStrLn s!"xlsbkind {hexOfString k} {optTag kindTag (Gen.xlsbKindTable.lookup k)}"
  for n in (List.range 70) ++ [127, 128, 255, 256, 257, 258, 65535, 65536, 65537, 65538, 16777216, 2147483648, 4294967294, 4294967295] do
    out.putStrLn s!"xlsbvis {n} {optTag visTag (Gen.xlsbVisTable.lookup n)}"
