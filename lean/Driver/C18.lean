import CalVerif.Prim.Wire
import CalVerif.Model.Ovba
import CalVerif.Spec.OvbaContainer
import CalVerif.Spec.OvbaDir
import CalVerif.Model.OvbaProject
/-! Driver for C18 (one request line → one reply line).

    `dec <hex>`            → `ok <hex>` | `err:<class>` | `panic:<site>` | `fuel`  model of `decompress_stream`
    `decd <hex>`           → the same with `ok:<len>:<fnv64>` instead of the bytes
    `ser <chunks>`         → hex of `container cs` (signature byte + `serialize cs`)
    `exp <chunks>`         → hex of `expand cs`
    `case <e> <chunks>`    → `<valid 0|1><decodable 0|1> <container hex> <len:fnv64 of expand, or - when e=0> <ok:len:fnv64 | err:… | panic:… of dec container>`
                             (`expand` is the specification's byte-by-byte definition, quadratic: asked for on small or sampled cases)
    `dir <hex>`            → `ok <cp> <refs> <mods>` | `err:<class>` | `panic`    model of the `dir` stream walk
    `proj <dir|?> <streams>` → `ok <cp> <refs> <modules>` | …                     model of `VbaProject::from_cfb`
    `cps`                  → the code pages the model accepts, comma separated
    `encs`                 → the model's code page table `id=encoding name`, comma separated
    `projfile <hex>`       → `VbaProject::new` on a whole compound file (C13 model ∘ C18 model; ASCII stream names)
    `dirser <19 fields>`   → `<wf 0|1> <hex of serDir p>`: the Lean spec encoder of the dir stream (`dir_walk` is about
                             these bytes); fields: sysKind compat|~ lcid lcidInvoke codepage name doc docU help1 help2
                             helpContext libFlags verMajor verMinor constants constantsU cookie refs mods, where
                             refs = `;`-joined `name:nameU:G:libid` | `name:nameU:P:abs:rel:major:minor` |
                             `name:nameU:C:orig|~:twiddled:extName|~:extNameU|~:extended:guid:cookie`,
                             mods = `;`-joined `name:nameU:stream:streamU:doc:docU:offset:helpContext:cookie:document:readOnly:private`
                             (byte strings hex, `-` = empty, `~` = absent, lists `-` when empty)

    `<chunks>`  = chunk `/` chunk …  (`-` = no chunk);  chunk = `R<hex>` (raw) or `C` token `,` token …;
                  token = `L<hex>` (a run of literal bytes) or `K<off>:<len>` (copy token)
    `<refs>`    = `name:description:path` joined by `;` (`-` if none), every field hex (`-` = empty)
    `<mods>`    = `name:stream:offset` joined by `;`
    `<modules>` = `name:rawhex` joined by `;` (in `dir` order)
    `<streams>` = `namehex=contenthex` joined by `;` (the streams of the compound file other than `dir`; `?` as
                  first argument = no `dir` stream) -/

open Ovba Wire

def parseToken (s : String) : Option (List Token) :=
  match s.toList with
  | 'L' :: rest => (bytesOfHex (String.ofList rest)).map (·.map Token.lit)
  | 'K' :: rest =>
    match (String.ofList rest).splitOn ":" with
    | [a, b] => match a.toNat?, b.toNat? with
      | some off, some len => some [Token.copy off len]
      | _, _ => none
    | _ => none
  | _ => none

def parseChunk (s : String) : Option Chunk :=
  match s.toList with
  | 'R' :: rest => (bytesOfHex (String.ofList rest)).map Chunk.raw
  | ['C'] => some (.compressed [])
  | 'C' :: ',' :: rest =>
    (((String.ofList rest).splitOn ",").mapM parseToken).map fun l => Chunk.compressed l.flatten
  | _ => none

def parseChunks (s : String) : Option (List Chunk) :=
  if s = "-" then some [] else (s.splitOn "/").mapM parseChunk

def slug (s : String) : String := String.ofList (s.toList.map fun c => if c = ' ' then '_' else c)

def tagOf {α : Type} (r : Res α) : String :=
  match r with
  | .panic m => "panic:" ++ slug m
  | r => r.tag

def showRes (r : Res Bytes) : String :=
  match r with
  | .ok b => "ok " ++ hexOrDash b
  | r => tagOf r

def fnv64 (bs : Bytes) : UInt64 :=
  bs.foldl (fun h b => (h ^^^ b.toUInt64) * 0x100000001b3) 0xcbf29ce484222325

/-- `len:fnv64` digest of a byte string -/
def digest (bs : Bytes) : String := s!"{bs.length}:{fnv64 bs}"

def showResDigest (r : Res Bytes) : String :=
  match r with
  | .ok b => "ok:" ++ digest b
  | r => tagOf r

def showRef (r : Ref) : String := s!"{hexOrDash r.name}:{hexOrDash r.description}:{hexOrDash r.path}"
def showMod (m : Module) : String := s!"{hexOrDash m.name}:{hexOrDash m.streamName}:{m.textOffset}"
def showList (l : List String) : String := if l.isEmpty then "-" else ";".intercalate l

def parseStreams (s : String) : Option (List (Bytes × Bytes)) :=
  if s = "-" then some [] else
  (s.splitOn ";").mapM fun kv =>
    match kv.splitOn "=" with
    | [k, v] => match bytesOfHex k, bytesOfHex v with
      | some a, some b => some (a, b)
      | _, _ => none
    | _ => none

def optHex (s : String) : Option (Option Bytes) :=
  if s = "~" then some none else (bytesOfHex s).map some

def parseRef (s : String) : Option RefSpec :=
  match s.splitOn ":" with
  | [n, u, "G", l] => do
    let n ← bytesOfHex n; let u ← bytesOfHex u; let l ← bytesOfHex l
    pure { name := n, nameUnicode := u, body := .registered l }
  | [n, u, "P", a, r, ma, mi] => do
    let n ← bytesOfHex n; let u ← bytesOfHex u; let a ← bytesOfHex a; let r ← bytesOfHex r
    let ma ← ma.toNat?; let mi ← mi.toNat?
    pure { name := n, nameUnicode := u, body := .project a r ma mi }
  | [n, u, "C", o, tw, en, eu, ext, g, c] => do
    let n ← bytesOfHex n; let u ← bytesOfHex u; let o ← optHex o; let tw ← bytesOfHex tw
    let en ← optHex en; let eu ← optHex eu; let ext ← bytesOfHex ext; let g ← bytesOfHex g; let c ← c.toNat?
    let extName := match en, eu with
      | some a, some b => some (a, b)
      | _, _ => none
    pure { name := n, nameUnicode := u, body := .control o tw extName ext g c }
  | _ => none

def parseBool (s : String) : Option Bool := if s = "1" then some true else if s = "0" then some false else none

def parseMod (s : String) : Option ModuleSpec :=
  match s.splitOn ":" with
  | [n, nu, st, su, d, du, off, hc, ck, doc, ro, pv] => do
    let n ← bytesOfHex n; let nu ← bytesOfHex nu; let st ← bytesOfHex st; let su ← bytesOfHex su
    let d ← bytesOfHex d; let du ← bytesOfHex du
    let off ← off.toNat?; let hc ← hc.toNat?; let ck ← ck.toNat?
    let doc ← parseBool doc; let ro ← parseBool ro; let pv ← parseBool pv
    pure { name := n, nameUnicode := nu, streamName := st, streamNameUnicode := su, doc := d, docUnicode := du,
           offset := off, helpContext := hc, cookie := ck, document := doc, readOnly := ro, priv := pv }
  | _ => none

def parseList {α : Type} (f : String → Option α) (s : String) : Option (List α) :=
  if s = "-" then some [] else (s.splitOn ";").mapM f

def parseDir (w : List String) : Option DirSpec :=
  match w with
  | [sk, compat, lcid, lcidI, cp, name, doc, docU, h1, h2, hc, lf, vma, vmi, cs, csU, cookie, refs, mods] => do
    let sk ← sk.toNat?
    let compat ← (if compat = "~" then some none else compat.toNat?.map some)
    let lcid ← lcid.toNat?; let lcidI ← lcidI.toNat?; let cp ← cp.toNat?
    let name ← bytesOfHex name; let doc ← bytesOfHex doc; let docU ← bytesOfHex docU
    let h1 ← bytesOfHex h1; let h2 ← bytesOfHex h2
    let hc ← hc.toNat?; let lf ← lf.toNat?; let vma ← vma.toNat?; let vmi ← vmi.toNat?
    let cs ← bytesOfHex cs; let csU ← bytesOfHex csU; let cookie ← cookie.toNat?
    let refs ← parseList parseRef refs
    let mods ← parseList parseMod mods
    pure { sysKind := sk, compat := compat, lcid := lcid, lcidInvoke := lcidI, codepage := cp, name := name,
           doc := doc, docUnicode := docU, help1 := h1, help2 := h2, helpContext := hc, libFlags := lf,
           versionMajor := vma, versionMinor := vmi, constants := cs, constantsUnicode := csU, refs := refs,
           cookie := cookie, modules := mods }
  | _ => none

def handle (line : String) : String :=
  match words line with
  | ["dec", h] => match bytesOfHex h with
    | some b => showRes (decompress b)
    | none => "bad-request"
  | ["decd", h] => match bytesOfHex h with
    | some b => showResDigest (decompress b)
    | none => "bad-request"
  | ["ser", d] => match parseChunks d with
    | some cs => hexOrDash (container cs)
    | none => "bad-request"
  | ["exp", d] => match parseChunks d with
    | some cs => hexOrDash (expand cs)
    | none => "bad-request"
  | ["case", withExp, d] => match parseChunks d with
    | some cs =>
      let c := container cs
      let dcd := cs.all decodableChunk
      let e := if withExp = "1" then digest (expand cs) else "-"
      s!"{if validChunks cs then 1 else 0}{if dcd then 1 else 0} {hexOrDash c} {e} {showResDigest (decompress c)}"
    | none => "bad-request"
  | ["dir", h] => match bytesOfHex h with
    | some b => match dirWalk b with
      | .ok (cp, refs, mods) => s!"ok {cp} {showList (refs.map showRef)} {showList (mods.map showMod)}"
      | r => tagOf r
    | none => "bad-request"
  | ["proj", d, ss] =>
    let dir := if d = "?" then some none else (bytesOfHex d).map some
    match dir, parseStreams ss with
    | some dir, some streams =>
      match project dir (fun k => (streams.find? (·.1 == k)).map (·.2)) with
      | .ok (cp, refs, ms) =>
        s!"ok {cp} {showList (refs.map showRef)} {showList (ms.map fun m => s!"{hexOrDash m.1}:{hexOrDash m.2}")}"
      | r => tagOf r
    | _, _ => "bad-request"
  | ["cps"] => ",".intercalate (knownCodepages.map toString)
  | ["encs"] => ",".intercalate (codepageTable.map fun x => s!"{x.1}={x.2}")
  | ["projfile", h] => match bytesOfHex h with
    | some file =>
      -- stream names decoded byte → char (exact for ASCII names; the harness asks only for those)
      match vbaProjectNew (fun b => b.map fun x => Char.ofNat x.toNat) file file.length with
      | .ok vp =>
        s!"ok {vp.codepage} {showList (vp.references.map showRef)} {showList (vp.modules.map fun m => s!"{hexOrDash m.1}:{hexOrDash m.2}")}"
      | r => tagOf r
    | none => "bad-request"
  | "dirser" :: w => match parseDir w with
    | some p => s!"{if p.wf then 1 else 0} {hexOrDash (serDir p)}"
    | none => "bad-request"
  | _ => "bad-request"

def main : IO Unit := Wire.run handle
