import CalVerif.Prim.Wire
import CalVerif.Model.OdsRange
import CalVerif.Spec.OdsRange
import CalVerif.Model.OdsCell
import CalVerif.Model.OdsCount
/-! Driver for C04 (values = `usize`, 0 = the default / empty cell).

    lists are comma separated, `-` = empty list
    `getrange  <cells> <cols> <rowsRepeats>`  → range dump of the model `get_range` | `panic`
    `getrangeU <cells> <cols> <rowsRepeats>`  → the same for the code before the D19 fix
    `collect <runs>`                          → `<cells> <cols> <rowsRepeats>` as `read_table` accumulates them
    `case <runs>`                             → `<model range dump>|<spec dump>` (spec = bbox + values of `expand`)
    `casevf <vfruns>`                         → `<model values>|<spec values>|<model formulas>|<spec formulas>`
                                                 (cell events `[c]v,f*k`: value id, formula id, repeat; `c` = covered cell)
    `cell <attr>;<attr>;…`                    → `<val> f=<formula hex> text=<0|1>` | `err` (model of get_datatype's
                                                 attribute loop; attr = `v<f64 bits>` | `v!` (unparsable) | `s|d|t|b|y|f<hex>` | `o`;
                                                 val = `E` | `F<bits>` | `S|D|T<hex>` | `B0|B1`)
    `count <axis> <hex>`                      → `k` | `err`: the repeat count (axis 0 = columns, an i32; 1 = rows, a usize) read from an attribute value (UTF-8 hex of the
                                                 value after unescaping; `-` = empty), model `OdsCount.parseCount`
    runs: rows separated by `/`, a row is `rep:v*k;v*k;…` (`rep:` = a row without cells), `-` = no rows
    range dump: `S=r,c E=r,c N=<len> C=<cells>`; more than 4096 cells: `C=#<fnv64 of the cell text>` -/

open OdsRange

def parseList (s : String) : Option (List Nat) :=
  if s = "-" then some [] else (s.splitOn ",").mapM String.toNat?

def showList (l : List Nat) : String :=
  if l.isEmpty then "-" else ",".intercalate (l.map toString)

def fnv64 (s : String) : UInt64 :=
  s.toUTF8.foldl (fun h b => (h ^^^ b.toUInt64) * 0x100000001b3) 0xcbf29ce484222325

def showCells (l : List Nat) : String :=
  let t := showList l
  if l.length > 4096 then s!"#{(fnv64 t).toNat}" else t

def dumpRng (r : Range.Rng Nat) : String :=
  s!"S={r.sr},{r.sc} E={r.er},{r.ec} N={r.inner.length} C={showCells r.inner}"

def dumpRes (r : Res (Range.Rng Nat)) : String :=
  match r with
  | .ok r => dumpRng r
  | _ => "panic"

def parseEv (s : String) : Option (Nat × Nat) :=
  match s.splitOn "*" with
  | [v, k] => do some ((← v.toNat?), (← k.toNat?))
  | _ => none

def parseRow (s : String) : Option (RowRun Nat) :=
  match s.splitOn ":" with
  | [rep, evs] => do
    let rep ← rep.toNat?
    let evs ← if evs = "" then some [] else (evs.splitOn ";").mapM parseEv
    some (rep, evs)
  | _ => none

/-- `[c]v,f*k`: a leading `c` marks a `table:covered-table-cell` -/
def parseEvVF (s : String) : Option (CellKind × (Nat × Nat) × Nat) :=
  let (kind, body) := if s.startsWith "c" then (CellKind.covered, (s.drop 1).toString) else (CellKind.cell, s)
  match body.splitOn "*" with
  | [vf, k] =>
    match vf.splitOn "," with
    | [v, f] => do some (kind, ((← v.toNat?), (← f.toNat?)), (← k.toNat?))
    | _ => none
  | _ => none

def parseRowVF (s : String) : Option (RowRunK (Nat × Nat)) :=
  match s.splitOn ":" with
  | [rep, evs] => do
    let rep ← rep.toNat?
    let evs ← if evs = "" then some [] else (evs.splitOn ";").mapM parseEvVF
    some (rep, evs)
  | _ => none

def parseRunsVF (s : String) : Option (List (RowRunK (Nat × Nat))) :=
  if s = "-" then some [] else (s.splitOn "/").mapM parseRowVF

def parseRuns (s : String) : Option (List (RowRun Nat)) :=
  if s = "-" then some [] else (s.splitOn "/").mapM parseRow

def specDump (runs : List (RowRun Nat)) : String :=
  match bbox runs with
  | none => "S=0,0 E=0,0 N=0 C=-"
  | some (r0, c0, r1, c1) =>
    let vals := (List.range (r1 + 1 - r0)).flatMap fun i =>
      (List.range (c1 + 1 - c0)).map fun j => expand runs (r0 + i) (c0 + j)
    s!"S={r0},{c0} E={r1},{c1} N={vals.length} C={showCells vals}"

def strOfHex (h : String) : Option String :=
  match Wire.bytesOfHex h with
  | some bs => String.fromUTF8? (ByteArray.mk bs.toArray)
  | none => none

def hexOfStr (s : String) : String := Wire.hexOrDash s.toUTF8.toList

def parseAttr (s : String) : Option OdsCell.Attr :=
  if s = "o" then some .other
  else if s = "v!" then some (.value none)
  else
    let k := s.take 1
    let p := (s.drop 1).toString
    if k.toString = "v" then p.toNat?.map fun b => .value (some b)
    else match strOfHex p with
      | none => none
      | some t =>
        match k.toString with
        | "s" => some (.stringValue t)
        | "d" => some (.dateValue t)
        | "t" => some (.timeValue t)
        | "b" => some (.boolValue t)
        | "y" => some (.valueType t)
        | "f" => some (.formula t)
        | _ => none

def showVal : OdsCell.Val → String
  | .empty => "E"
  | .float b => s!"F{b}"
  | .str t => s!"S{hexOfStr t}"
  | .bool b => if b then "B1" else "B0"
  | .dateIso t => s!"D{hexOfStr t}"
  | .durIso t => s!"T{hexOfStr t}"

def handleCell (a : String) : String :=
  match (if a = "-" then some [] else (a.splitOn ";").mapM parseAttr) with
  | none => "bad-op"
  | some attrs =>
    match OdsCell.getDatatype attrs with
    | none => "err"
    | some o => s!"{showVal o.val} f={hexOfStr o.formula} text={if o.useText then 1 else 0}"

def handle (line : String) : String :=
  match Wire.words line with
  | ["getrange", a, b, c] =>
    match parseList a, parseList b, parseList c with
    | some cells, some cols, some reps => dumpRes (getRange ⟨cells, cols, reps⟩)
    | _, _, _ => "bad-op"
  | ["getrangeU", a, b, c] =>
    match parseList a, parseList b, parseList c with
    | some cells, some cols, some reps => dumpRes (getRangeUnfixed ⟨cells, cols, reps⟩)
    | _, _, _ => "bad-op"
  | ["collect", rs] =>
    match parseRuns rs with
    | some runs => let f := collect runs; s!"{showList f.cells} {showList f.cols} {showList f.reps}"
    | none => "bad-op"
  | ["case", rs] =>
    match parseRuns rs with
    | some runs => s!"{dumpRes (getRange (collect runs))}|{specDump runs}"
    | none => "bad-op"
  | ["cell", a] => handleCell a
  | ["count", axis, h] =>
    match strOfHex h with
    | some t =>
      if axis = "0" then
        match OdsCount.parseColCount t.toList with
        | some k => toString k
        | none => "err"
      else
        match OdsCount.parseCount t.toList with
        | some k => toString k
        | none => "err"
    | none => "bad-op"
  | ["casevf", rs] =>
    match parseRunsVF rs with
    | some runs =>
      let sv := specDump (runsOf (fun e : Nat × Nat => e.1) (eraseKinds runs))
      let sf := specDump (runsOf (fun e : Nat × Nat => e.2) (eraseKinds runs))
      s!"{dumpRes (getRange (collectKV runs))}|{sv}|{dumpRes (getRange (collectKF runs))}|{sf}"
    | none => "bad-op"
  | _ => "bad-op"

def main : IO Unit := Wire.run handle
