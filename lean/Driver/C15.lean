import CalVerif.Prim.Wire
import CalVerif.Model.SharedFormula
import CalVerif.Spec.FormulaTokens
import CalVerif.Model.XlsxFormula
/-! Driver for C15 (shared formulas). Texts travel as hex of their UTF-8 bytes (`-` = empty).

    replace <hex> <dr> <dc>          → ok <hex> | err | panic | fuel         (model `replaceCellNames`)
    render <toks>                    → <hex>                                  (spec `render`)
    shift <toks> <dr> <dc>           → <wf 0|1> <hex of render (shift toks)>  (spec)
    case <toks> <dr> <dc>            → <wf> <hex render> <hex render∘shift> <model outcome on render>
    group <mr> <mc> <sr> <sc> <er> <ec> → r,c,dr,dc;… for the rectangle grown by one cell (`r,c,-` = no offset)
    dim <hex>                        → ok sr sc er ec | err | panic           (model `getDimension`)
    sheet <cell>;<cell>;…            → ok r,c,<hex>;… | err | panic           (model `worksheet_formula`)
        cell = r,c,N | r,c,P,<hex> | r,c,M,<si>,<hex ref>,<hex> | r,c,C,<si>,<hex> | r,c,X,<hex> (shared, no si)
    events <event> <event> …         → ok r,c,<hex>;… | err | panic           (event-level model `XlsxFormula.formulaCells`
                                       on the worksheet part's XML events, wire form of `verif_harness::xlsxw::ev_wire`)
    toks  = tok;tok;…   tok = R,<colAbs 0|1>,<col>,<rowAbs 0|1>,<row> | S,<hex> | Q,<hex> | U,<hex> | I,<hex> | N,<hex> | B,<hex> ([…] span) | P,<hex> -/

open SharedFormula FormulaTokens

def decodeText (h : String) : Option (List Char) := do
  let bs ← Wire.bytesOfHex h
  let s ← String.fromUTF8? (ByteArray.mk bs.toArray)
  pure s.toList

def encodeText (l : List Char) : String := Wire.hexOrDash (String.ofList l).toUTF8.toList

def parseTok (s : String) : Option Tok :=
  match s.splitOn "," with
  | ["R", ca, c, ra, r] => do
    let c ← c.toNat?
    let r ← r.toNat?
    pure (.ref (ca == "1") c (ra == "1") r)
  | ["S", h] => (decodeText h).map .str
  | ["Q", h] => (decodeText h).map (.sheet · true)
  | ["U", h] => (decodeText h).map (.sheet · false)
  | ["I", h] => (decodeText h).map .ident
  | ["N", h] => (decodeText h).map .num
  | ["B", h] => (decodeText h).map .struct
  | ["P", h] => match decodeText h with
    | some [c] => some (.punct c)
    | _ => none
  | _ => none

def parseToks (s : String) : Option (List Tok) :=
  if s = "-" then some [] else (s.splitOn ";").mapM parseTok

def showRes (r : Res (List Char)) : String :=
  match r with
  | .ok l => "ok " ++ encodeText l
  | .err _ => "err"
  | .panic _ => "panic"
  | .outOfFuel => "fuel"

def parseCell (s : String) : Option CellRaw :=
  match s.splitOn "," with
  | [r, c, "N"] => do pure ⟨(← r.toNat?, ← c.toNat?), none⟩
  | [r, c, "P", h] => do pure ⟨(← r.toNat?, ← c.toNat?), some (← decodeText h, none)⟩
  | [r, c, "M", si, rf, h] => do
    pure ⟨(← r.toNat?, ← c.toNat?), some (← decodeText h, some (some (← si.toNat?), some (← decodeText rf)))⟩
  | [r, c, "C", si, h] => do
    pure ⟨(← r.toNat?, ← c.toNat?), some (← decodeText h, some (some (← si.toNat?), none))⟩
  | [r, c, "X", h] => do pure ⟨(← r.toNat?, ← c.toNat?), some (← decodeText h, some (none, none))⟩
  | _ => none

def showOffsets (g : Group) : String :=
  let rows := List.range (g.ref.er + 2 - (g.ref.sr - 1)) |>.map (· + (g.ref.sr - 1))
  let cols := List.range (g.ref.ec + 2 - (g.ref.sc - 1)) |>.map (· + (g.ref.sc - 1))
  ";".intercalate (rows.flatMap fun r => cols.map fun c =>
    match g.offsetOf (r, c) with
    | some (dr, dc) => s!"{r},{c},{dr},{dc}"
    | none => s!"{r},{c},-")

/-! worksheet events (`xlsxw::ev_wire`): `s:<name>:<k>=<hex>,…` | `e:<name>` | `t:<hex>` | `c:<hex>` | `o`;
    the namespace colon of a name is written `.` -/

def nameOfWire (s : String) : XlsxCells.Bytes := (s.toList.map fun c => if c = '.' then ':' else c).map Char.toNat

def natsOfHex (h : String) : Option XlsxCells.Bytes := (Wire.bytesOfHex h).map fun bs => bs.map UInt8.toNat

def attrsOfWire (s : String) : Option XlsxCells.Attrs :=
  if s = "-" then some [] else
  (s.splitOn ",").mapM fun kv =>
    match kv.splitOn "=" with
    | [k, v] => (natsOfHex v).map fun b => (nameOfWire k, b)
    | _ => none

def evOfWire (w : String) : Option XlsxCells.Ev :=
  if w = "o" then some .other else
  match w.splitOn ":" with
  | ["s", n, a] => (attrsOfWire a).map fun at_ => .start (nameOfWire n) at_
  | ["e", n] => some (.stop (nameOfWire n))
  | ["t", h] => (natsOfHex h).map .text
  | ["c", h] => (natsOfHex h).map .text
  | _ => none

def eventsReply (ws : List String) : String :=
  match (if ws = ["-"] then some [] else ws.mapM evOfWire) with
  | none => "bad-op"
  | some evs =>
    match XlsxFormula.formulaCells evs with
    | .ok cells =>
      "ok " ++ (if cells.isEmpty then "-" else
        ";".intercalate (cells.map fun c => s!"{c.1},{c.2.1},{Wire.hexOrDash (c.2.2.map UInt8.ofNat)}"))
    | .err _ => "err"
    | .panic _ => "panic"
    | .outOfFuel => "fuel"

def handle (line : String) : String :=
  match Wire.words line with
  | "events" :: ws => eventsReply ws
  | ["replace", h, dr, dc] =>
    match decodeText h, dr.toInt?, dc.toInt? with
    | some s, some dr, some dc => showRes (replaceCellNames s (dr, dc))
    | _, _, _ => "bad-op"
  | ["render", t] =>
    match parseToks t with
    | some ts => encodeText (render ts)
    | none => "bad-op"
  | ["shift", t, dr, dc] =>
    match parseToks t, dr.toInt?, dc.toInt? with
    | some ts, some dr, some dc => s!"{if wf (dr, dc) ts then 1 else 0} {encodeText (render (shift ts (dr, dc)))}"
    | _, _, _ => "bad-op"
  | ["case", t, dr, dc] =>
    match parseToks t, dr.toInt?, dc.toInt? with
    | some ts, some dr, some dc =>
      let s := render ts
      s!"{if wf (dr, dc) ts then 1 else 0} {encodeText s} {encodeText (render (shift ts (dr, dc)))} {showRes (replaceCellNames s (dr, dc))}"
    | _, _, _ => "bad-op"
  | ["group", mr, mc, sr, sc, er, ec] =>
    match [mr, mc, sr, sc, er, ec].mapM String.toNat? with
    | some [mr, mc, sr, sc, er, ec] => showOffsets ⟨[], ⟨sr, sc, er, ec⟩, (mr, mc)⟩
    | _ => "bad-op"
  | ["dim", h] =>
    match decodeText h with
    | some s => match getDimension s with
      | .ok d => s!"ok {d.sr} {d.sc} {d.er} {d.ec}"
      | .err _ => "err"
      | .panic _ => "panic"
      | .outOfFuel => "fuel"
    | none => "bad-op"
  | ["sheet", cells] =>
    match (if cells = "-" then some [] else (cells.splitOn ";").mapM parseCell) with
    | some cs => match sheetFormulasRaw [] cs with
      | .ok out => "ok " ++ (if out.isEmpty then "-" else ";".intercalate (out.map fun (p, v) => s!"{p.1},{p.2},{encodeText v}"))
      | .err _ => "err"
      | .panic _ => "panic"
      | .outOfFuel => "fuel"
    | none => "bad-op"
  | _ => "bad-op"

def main : IO Unit := Wire.run handle
