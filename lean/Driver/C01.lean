import CalVerif.Prim.Wire
import CalVerif.Model.XlsxCells
import CalVerif.Spec.XlsxSheet
import CalVerif.Model.XlsxContainer
/-! Driver for C01 (model of the xlsx worksheet reader). One request line → one reply line.

    a1 <hex>…            → `;`-joined results of `get_row_and_optional_column`:  `ok <row> <col|->` | `err:<class>` | `panic`
    rc <hex>…            → the same for `get_row_column`:                         `ok <row> <col>`
    dim <hex>…           → `get_dimension`:                                       `ok <sr> <sc> <er> <ec>`
    colname <n>…         → `column_number_to_name`:                               `ok <hex>`
    coord <r> <c>        → `coordinate_to_name`
    sweep colname <lo> <hi>            → FNV-64 over the `colname` results of lo ≤ n < hi
    sweep a1cols <row1> <lower>        → FNV-64 over `a1` of  name(c) ++ dec(row1)  for every c < 16384 (letters lower-cased if 1)
    sweep a1rows <lo> <hi> <c>         → FNV-64 over `a1` of  name(c) ++ dec(row1)  for lo ≤ row1 < hi
    sst <ev>…            → `read_shared_strings`:  `ok <n> <hex>×n` | `err:<class>`
    sheet <formats> <n> <string hex>×n <ev>…   → reader on a worksheet part (see `sheetReply`)
    render <layout> <sheet>            → the Lean encoder's events for a logical sheet (see `Spec/XlsxSheet.lean`)
    container <n> <entry name hex>×n W=<entry hex> <ev>… R=<entry hex> <ev>…   → the sheet table and, per sheet, the entry
                                          `worksheet_cells_reader` opens (see `containerReply`)

    events: `s:<name>:<k>=<hex>,…|-`  `e:<name>`  `t:<hex>`  `o`   (`.` in a name stands for `:`) -/

open XlsxCells

def natsOfHex (s : String) : Option Bytes := (Wire.bytesOfHex s).map (·.map UInt8.toNat)
def hexOfNats (b : Bytes) : String := Wire.hexOrDash (b.map UInt8.ofNat)

def resTag {α : Type} (r : Res α) (f : α → String) : String :=
  match r with
  | .ok a => "ok " ++ f a
  | .err e => "err:" ++ e
  | .panic _ => "panic"
  | .outOfFuel => "fuel"

def showA1 (r : Res (Nat × Option Nat)) : String :=
  resTag r fun p => s!"{p.1} " ++ (match p.2 with | some c => toString c | none => "-")

def showRC (r : Res (Nat × Nat)) : String := resTag r fun p => s!"{p.1} {p.2}"
def showDim (r : Res Dims) : String := resTag r fun d => s!"{d.sr} {d.sc} {d.er} {d.ec}"
def showName (r : Res Bytes) : String := resTag r hexOfNats

def fnvStep (h : UInt64) (b : UInt8) : UInt64 := (h ^^^ b.toUInt64) * 0x100000001b3
def fnvStr (h : UInt64) (s : String) : UInt64 := (s.toUTF8.foldl fnvStep h) |> (fnvStep · 10)
def fnvInit : UInt64 := 0xcbf29ce484222325

def nameOf (c : Nat) (lower : Bool) : Bytes :=
  let n := (colLE (c + 1)).reverse
  if lower then n.map (· + 32) else n

def sweepColname (lo hi : Nat) : UInt64 := Id.run do
  let mut h := fnvInit
  for n in [lo:hi] do
    h := fnvStr h (showName (columnNumberToName n))
  return h

def sweepA1Cols (row1 : Nat) (lower : Bool) : UInt64 := Id.run do
  let mut h := fnvInit
  let digits := (decLE row1).reverse
  for c in [0:16384] do
    h := fnvStr h (showA1 (getRowCol (nameOf c lower ++ digits)))
  return h

def sweepA1Rows (lo hi c : Nat) : UInt64 := Id.run do
  let mut h := fnvInit
  let name := nameOf c false
  for row1 in [lo:hi] do
    h := fnvStr h (showA1 (getRowCol (name ++ (decLE row1).reverse)))
  return h

/-! events -/

def nameOfWire (s : String) : Bytes := (s.toList.map fun ch => if ch = '.' then 58 else ch.toNat)

def attrsOfWire (s : String) : Option Attrs :=
  if s = "-" then some [] else
  (s.splitOn ",").mapM fun kv =>
    match kv.splitOn "=" with
    | [k, v] => (natsOfHex v).map fun b => (nameOfWire k, b)
    | _ => none

def evOfWire (w : String) : Option Ev :=
  if w = "o" then some .other else
  match w.splitOn ":" with
  | ["s", n, a] => (attrsOfWire a).map fun at_ => .start (nameOfWire n) at_
  | ["e", n] => some (.stop (nameOfWire n))
  | ["t", h] => (natsOfHex h).map .text
  | _ => none

def wireOfName (n : Bytes) : String := String.ofList (n.map fun c => if c = 58 then '.' else Char.ofNat c)

def wireOfEv : Ev → String
  | .start n attrs =>
    let a := if attrs.isEmpty then "-" else ",".intercalate (attrs.map fun kv => wireOfName kv.1 ++ "=" ++ hexOfNats kv.2)
    s!"s:{wireOfName n}:{a}"
  | .stop n => s!"e:{wireOfName n}"
  | .text s => s!"t:{hexOfNats s}"
  | .other => "o"

def evsOfWire (ws : List String) : Option (List Ev) :=
  if ws = ["-"] then some [] else ws.mapM evOfWire

def fmtOfChar : Char → Option CellFormat
  | 'o' => some .other
  | 'd' => some .dateTime
  | 't' => some .timeDelta
  | _ => none

def showVal : Val → String
  | .empty => "_"
  | .str s => "S:" ++ hexOfNats s
  | .shared s => "SS:" ++ hexOfNats s
  | .bool b => if b then "B:1" else "B:0"
  | .error c => s!"E:{c.code}"
  | .dateIso s => "DI:" ++ hexOfNats s
  | .num t f strict => s!"N:{hexOfNats t}:{f.tag}:{if strict then 1 else 0}"

def showCells (cells : List (Nat × Nat × Val)) : String :=
  if cells.isEmpty then "-" else ";".intercalate (cells.map fun c => s!"{c.1},{c.2.1},{showVal c.2.2}")

def showEnd (r : Res Unit) : String :=
  match r with
  | .ok _ => "ok"
  | .err e => "err:" ++ e
  | .panic _ => "panic"
  | .outOfFuel => "fuel"

/-- the dense range is only built when its bounding box is small (the model's `from_sparse` works on lists) -/
def rangeArea (cells : List (Nat × Nat × Val)) : Nat :=
  match cells with
  | [] => 0
  | c0 :: _ =>
    let rmin := cells.foldl (fun m c => min m c.1) c0.1
    let rmax := cells.foldl (fun m c => max m c.1) c0.1
    let cmin := cells.foldl (fun m c => min m c.2.1) c0.2.1
    let cmax := cells.foldl (fun m c => max m c.2.1) c0.2.1
    (rmax - rmin + 1) * (cmax - cmin + 1)

def showRange (cfg : Cfg) (evs : List Ev) (cells : List (Nat × Nat × Val)) : String :=
  if rangeArea (cells.filter (fun c => c.2.2 ≠ .empty)) > 65536 then "skip" else
  match worksheetRange cfg evs with
  | .ok r =>
    match r.start, r.end_ with
    | some s, some e =>
      let used := (r.inner.filter (· ≠ .empty)).length
      s!"ok:{s.1},{s.2},{e.1},{e.2},{used}"
    | _, _ => "ok:-"
  | .err e => "err:" ++ e
  | .panic _ => "panic"
  | .outOfFuel => "fuel"

/-- `new=<ok:sr,sc,er,ec|err:X|panic> end=<ok|err:X|panic> cells=<r,c,val;…|-> range=<ok:-|ok:sr,sc,er,ec,used|skip|err:X|panic>` -/
def sheetReply (cfg : Cfg) (evs : List Ev) : String :=
  match readerNew evs default false with
  | .ok (d, rest) =>
    let (cells, e) := run cfg rest initSt
    s!"new=ok:{d.sr},{d.sc},{d.er},{d.ec} end={showEnd e} cells={showCells cells} range={showRange cfg evs cells}"
  | .err e => s!"new=err:{e} range=" ++ (match worksheetRange cfg evs with | .ok _ => "ok:-" | .err e => "err:" ++ e | _ => "panic")
  | .panic _ => "new=panic range=panic"
  | .outOfFuel => "new=fuel"

def takeStrings : Nat → List String → Option (List Bytes × List String)
  | 0, rest => some ([], rest)
  | n+1, w :: rest => do
    let b ← natsOfHex w
    let (bs, rest') ← takeStrings n rest
    pure (b :: bs, rest')
  | _, [] => none

def handleSheet (args : List String) : String :=
  match args with
  | fm :: n :: rest =>
    match (if fm = "-" then some [] else fm.toList.mapM fmtOfChar), n.toNat? with
    | some formats, some n =>
      match takeStrings n rest with
      | some (strings, evw) =>
        match evsOfWire evw with
        | some evs => sheetReply ⟨strings, formats⟩ evs
        | none => "bad-events"
      | none => "bad-strings"
    | _, _ => "bad-args"
  | _ => "bad-args"


/-! `render` request: `render <pfx 0|1> <dim -|sr,sc,er,ec> <flags> <row>…`
    flags: letters of `b` (siblings before `<dimension>`), `a` (siblings after it), `x` (elements after `</sheetData>`),
           `w` (white space / comments between rows and cells), or `-`
    row  = `<r>,<explicit>,<prefix>,<attr mode 0|1|2>/<cell>/<cell>…`   attr mode: 1 = `spans` in front, 2 = `ht customHeight` behind
    cell = `<c>,<explicit>,<lower>,<style !|hex>,<formula !|hex>,<kind>,<payload>,<prefix>,<attr mode 0..3>,<split 0|1>`
           attr mode: 1 = reversed, 2 = reversed with `cm` in front, 3 = `vm ph` appended; split 1 = one piece per character
           kind/payload: `b,-` blank · `n0,<hex>` / `n1,<hex>` number · `s,<idx>` shared · `i,<hex>` inline · `f,<hex>` str ·
           `t,<0|1>` bool · `e,<code>` error · `d,<hex>` ISO date.
    Reply: the events of `Spec.renderSheet`, or `bad-…`. -/

open XlsxSheet in
def optHex (s : String) : Option (Option Bytes) :=
  if s = "!" then some none else (natsOfHex s).map some

def errOfCode : Nat → Option CellErrorType
  | 0 => some .div0 | 1 => some .nA | 2 => some .name | 3 => some .null
  | 4 => some .num | 5 => some .ref | 6 => some .value | _ => none

open XlsxSheet in
def contentOfWire (kind payload : String) : Option Content :=
  match kind with
  | "b" => some .blank
  | "n0" => (natsOfHex payload).map (.num · false)
  | "n1" => (natsOfHex payload).map (.num · true)
  | "s" => payload.toNat?.map .shared
  | "i" => (natsOfHex payload).map .inline
  | "f" => (natsOfHex payload).map .fstr
  | "t" => some (.bool (payload = "1"))
  | "e" => (payload.toNat?.bind errOfCode).map .err
  | "d" => (natsOfHex payload).map .iso
  | _ => none

structure CellW where
  col : Nat
  explicit : Bool
  lower : Bool
  spec : XlsxSheet.CellSpec
  pfx : Bool
  attrMode : Nat
  split : Bool

def cellOfWire (w : String) : Option CellW :=
  match w.splitOn "," with
  | [c, ex, lo, st, fo, kind, payload, px, am, sp] => do
    let c ← c.toNat?
    let st ← optHex st
    let fo ← optHex fo
    let content ← contentOfWire kind payload
    let am ← am.toNat?
    pure ⟨c, ex = "1", lo = "1", ⟨content, st, fo⟩, px = "1", am, sp = "1"⟩
  | _ => none

structure RowW where
  row : Nat
  explicit : Bool
  pfx : Bool
  attrMode : Nat
  cells : List CellW

def rowOfWire (w : String) : Option RowW :=
  match w.splitOn "/" with
  | hd :: cells =>
    match hd.splitOn "," with
    | [r, ex, px, am] => do
      let r ← r.toNat?
      let am ← am.toNat?
      let cs ← cells.mapM cellOfWire
      pure ⟨r, ex = "1", px = "1", am, cs⟩
    | _ => none
  | [] => none

def dimOfWire (w : String) : Option (Option Dims) :=
  if w = "-" then some none else
  match (w.splitOn ",").mapM String.toNat? with
  | some [a, b, c, d] => some (some ⟨a, b, c, d⟩)
  | _ => none

/-- one piece per UTF-8 character: cut before every byte that is not a continuation byte -/
def cutChars : Bytes → List Bytes
  | [] => []
  | b :: rest =>
    match cutChars rest with
    | [] => [[b]]
    | c :: cs =>
      let cont : Bool := match rest with | r :: _ => decide (128 ≤ r ∧ r < 192) | [] => false
      if cont then (b :: c) :: cs else [b] :: c :: cs

def cellArrangeOf (mode : Nat) (a : Attrs) : Attrs :=
  match mode with
  | 1 => a.reverse
  | 2 => (asciiBytes "cm", [49]) :: a.reverse
  | 3 => a ++ [(asciiBytes "vm", [49]), (asciiBytes "ph", [48])]
  | _ => a

def rowArrangeOf (mode : Nat) (a : Attrs) : Attrs :=
  match mode with
  | 1 => (asciiBytes "spans", asciiBytes "1:3") :: a
  | 2 => a ++ [(asciiBytes "ht", asciiBytes "15"), (asciiBytes "customHeight", [49])]
  | _ => a

def elem (p : Bool) (name : String) (attrs : Attrs) (kids : List Ev) : List Ev :=
  [Ev.start (XlsxSheet.q p (asciiBytes name)) attrs] ++ kids ++ [Ev.stop (XlsxSheet.q p (asciiBytes name))]

def handleRender (args : List String) : String :=
  match args with
  | pfx :: dim :: flags :: rows =>
    match dimOfWire dim, rows.mapM rowOfWire with
    | some d, some rs =>
      let p := pfx = "1"
      let has (c : Char) : Bool := flags.toList.contains c
      let sheet : XlsxSheet.Sheet := rs.map fun r => (r.row, r.cells.map fun c => (c.col, c.spec))
      let rowW : Nat → Option RowW := fun r => rs.find? (·.row == r)
      let cellW : Nat → Nat → Option CellW := fun r c => (rowW r).bind fun row => row.cells.find? (·.col == c)
      let ws : Bool := has 'w'
      let lay : XlsxSheet.Layout :=
        { pfx := p, dim := d,
          rowPfx := fun r => ((rowW r).map (·.pfx)).getD false,
          cellPfx := fun r c => ((cellW r c).map (·.pfx)).getD false,
          rowExplicit := fun r => ((rowW r).map (·.explicit)).getD true,
          cellExplicit := fun r c => ((cellW r c).map (·.explicit)).getD true,
          cellLower := fun r c => ((cellW r c).map (·.lower)).getD false,
          cellArrange := fun r c a => cellArrangeOf (((cellW r c).map (·.attrMode)).getD 0) a,
          rowArrange := fun r a => rowArrangeOf (((rowW r).map (·.attrMode)).getD 0) a,
          split := fun r c t => if ((cellW r c).map (·.split)).getD false then cutChars t else (if t = [] then [] else [t]),
          beforeDim := if has 'b' then elem p "sheetPr" [] (elem p "tabColor" [(asciiBytes "rgb", asciiBytes "FFFF0000")] []) else [],
          afterDim := if has 'a' then
              elem p "sheetViews" [] (elem p "sheetView" [(asciiBytes "workbookViewId", [48])] (elem p "selection" [(asciiBytes "activeCell", asciiBytes "B2")] []))
              ++ elem p "sheetFormatPr" [(asciiBytes "defaultRowHeight", asciiBytes "15")] []
              ++ elem p "cols" [] (elem p "col" [(asciiBytes "min", [49]), (asciiBytes "max", [50]), (asciiBytes "width", asciiBytes "12")] [])
            else [],
          after := if has 'x' then
              elem p "pageMargins" [(asciiBytes "left", asciiBytes "0.7")] []
              ++ elem p "extLst" [] (elem p "ext" [(asciiBytes "uri", asciiBytes "{x}")] (elem p "sheetData" [] (elem p "row" [(nR, [55])] [])))
            else [],
          gapRow := fun _ => if ws then [.text [10, 32, 32]] else [],
          gapCell := fun _ _ => if ws then [.text [10, 32, 32, 32, 32], .other] else [],
          gapRowEnd := fun _ => if ws then [.other, .text [10, 32, 32]] else [],
          gapEnd := if ws then [.text [10]] else [] }
      let evs := XlsxSheet.renderSheet sheet lay
      if evs.isEmpty then "-" else " ".intercalate (evs.map wireOfEv)
    | _, _ => "bad-render"
  | _ => "bad-render"

/-! container glue (`Model/XlsxContainer.lean`) -/

def strOfHex (h : String) : Option String := do
  let bs ← Wire.bytesOfHex h
  String.fromUTF8? (ByteArray.mk bs.toArray)

def hexOfStr (s : String) : String := Wire.hexOrDash s.toUTF8.toList

def unDot (s : String) : String := String.ofList (s.toList.map fun c => if c = '.' then ':' else c)

def metaAttrs (s : String) : Option (List (String × String)) :=
  if s = "-" then some [] else
  (s.splitOn ",").mapM fun kv =>
    match kv.splitOn "=" with
    | [k, v] => (strOfHex v).map fun b => (unDot k, b)
    | _ => none

def metaEv (w : String) : Option Meta.Ev :=
  if w = "o" then some .other else
  match w.splitOn ":" with
  | ["s", n, a] => (metaAttrs a).map fun at_ => .start (unDot n) at_
  | ["e", n] => some (.end_ (unDot n))
  | ["t", h] => (strOfHex h).map .text
  | ["c", h] => (strOfHex h).map .cdata
  | _ => none

def errClass (e : String) : String := (e.splitOn ":").headD e

/-- `ok <name hex>:<kind>:<visibility>:<path hex>:<opened entry hex | !err class>;…` or `err:<class>` -/
def containerReply (names : List String) (wname : String) (wevs : List Meta.Ev) (rname : String) (revs : List Meta.Ev) : String :=
  let a : XlsxContainer.Archive Unit :=
    { names := names, xml := fun e => if e = rname then revs else if e = wname then wevs else [], content := fun _ => () }
  match XlsxContainer.sheetTable a with
  | .ok table =>
    let rows := table.map fun s =>
      let opened := match XlsxContainer.openSheetEntry a s.1.name with
        | .ok e => hexOfStr e
        | .err e => "!" ++ errClass e
        | _ => "!panic"
      s!"{hexOfStr s.1.name}:{s.1.typ.tag}:{s.1.visible.tag}:{hexOfStr s.2}:{opened}"
    "ok " ++ (if rows.isEmpty then "-" else ";".intercalate rows)
  | .err e => "err:" ++ errClass e
  | .panic _ => "panic"
  | .outOfFuel => "fuel"

def splitAtPrefix (pre : String) (ws : List String) : List String × List String :=
  (ws.takeWhile (fun w => !w.startsWith pre), ws.dropWhile (fun w => !w.startsWith pre))

def handleContainer (args : List String) : String :=
  match args with
  | n :: rest =>
    match n.toNat? with
    | some n =>
      match (rest.take n).mapM strOfHex with
      | some names =>
        match rest.drop n with
        | w :: more =>
          let (wws, rws) := splitAtPrefix "R=" more
          match rws with
          | r :: rrest =>
            match strOfHex (w.drop 2).toString, strOfHex (r.drop 2).toString, wws.mapM metaEv, rrest.mapM metaEv with
            | some wname, some rname, some wevs, some revs => containerReply names wname wevs rname revs
            | _, _, _, _ => "bad-container-events"
          | [] => "bad-container"
        | [] => "bad-container"
      | none => "bad-names"
    | none => "bad-container"
  | _ => "bad-container"

def mapHex (args : List String) (f : Bytes → String) : String :=
  ";".intercalate (args.map fun a => match natsOfHex a with | some b => f b | none => "bad-hex")

def handle (line : String) : String :=
  match Wire.words line with
  | "a1" :: args => mapHex args fun b => showA1 (getRowCol b)
  | "rc" :: args => mapHex args fun b => showRC (getRowColumn b)
  | "dim" :: args => mapHex args fun b => showDim (getDimension b)
  | "colname" :: args => ";".intercalate (args.map fun a => match a.toNat? with | some n => showName (columnNumberToName n) | none => "bad-arg")
  | ["coord", r, c] =>
    match r.toNat?, c.toNat? with
    | some r, some c => showName (coordToName r c)
    | _, _ => "bad-arg"
  | ["sweep", "colname", lo, hi] =>
    match lo.toNat?, hi.toNat? with
    | some lo, some hi => toString (sweepColname lo hi)
    | _, _ => "bad-arg"
  | ["sweep", "a1cols", row1, lower] =>
    match row1.toNat? with
    | some r => toString (sweepA1Cols r (lower = "1"))
    | none => "bad-arg"
  | ["sweep", "a1rows", lo, hi, c] =>
    match lo.toNat?, hi.toNat?, c.toNat? with
    | some lo, some hi, some c => toString (sweepA1Rows lo hi c)
    | _, _, _ => "bad-arg"
  | "sst" :: evw =>
    match evsOfWire evw with
    | some evs => resTag (readSharedStrings evs) fun l => " ".intercalate (toString l.length :: l.map hexOfNats)
    | none => "bad-events"
  | "sheet" :: args => handleSheet args
  | "render" :: args => handleRender args
  | "container" :: args => handleContainer args
  | _ => "bad-op"

def main : IO Unit := Wire.run handle
