import CalVerif.Prim.Wire
import CalVerif.Model.De
import CalVerif.Model.DeData
/-! Driver for C09.

    `[hist] de <range> <cfg> <shape> <n> <sched> <std>`
        range  = `E` | `sr,sc,h,w/<cell>,<cell>,…` (row-major)
        cell   = `I:<i64>` `F:<16 hex>` `S:<utf8 hex|->` `B:0|1` `D:<16 hex>` `DI:<hex>` `DU:<hex>` `E:<kind>` `_`
        cfg    = `N` | `A` | `C` | `C/<hex>/<hex>…` | `W-` | `W/<hex>…` (with_deserialize_headers: not a struct / struct fields),
                 optionally followed by `+h1` / `+h0` … (`has_headers(true/false)` calls on that builder)
        shape  = `seq` | `map`
        n      = number of `next` calls, or an op list `x,n2,s1,t2:3,k2,l,c,h` (next, nth(2), skip(1).next(), step_by(2).take(3),
                 take(2), last(), count(), size_hint only — each on `by_ref()`; adaptors are mapped to the `next`/`nth`
                 sequences std performs)
        sched  = `any,str,i64,…` (cell targets, cyclic per row)
        std    = `-` | `f<16 hex>=<hex>;p<hex>=<16 hex|x>;q<hex>=<8 hex|x>;…`  (f64::to_string, parse::<f64>, parse::<f32>)
      reply  = `<new> | <hint> | <item> | <hint> | …` (`n` items)
    `convert <cell> <target> <row>,<col> <std>` → `<vals>` or `!<err>`
    `data <cell> <row>,<col>` → `Data::deserialize` and `Option::<Data>::deserialize` of the cell
    `visit <val>` → what `DataVisitor` builds for that `visit_*` call
    `helper <cell> <row>,<col> <std>` → the four `deserialize_as_{i64,f64}_or_{none,string}` results
        (std also: `a<hex>=<i64|x>` atoi_simd, `g<hex>=<16 hex|x>` fast_float2) -/

open De

def strOfHex (h : String) : Option Str :=
  match Wire.bytesOfHex h with
  | some bs => (String.fromUTF8? (ByteArray.mk bs.toArray)).map String.toList
  | none => none

def hexOfStr (s : Str) : String := Wire.hexOrDash (String.ofList s).toUTF8.toList

def natOfHex (h : String) : Option Nat :=
  h.toList.foldl (fun acc c => match acc, Wire.hexVal c with
    | some a, some v => some (a * 16 + v)
    | _, _ => none) (some 0)

def hexN (n digits : Nat) : String :=
  String.ofList ((List.range digits).reverse.map fun i => Wire.hexDigit (n / 16 ^ i % 16))

def parseCell (w : String) : Option Data :=
  if w = "_" then some .empty else
  match w.splitOn ":" with
  | ["I", v] => v.toInt?.map Data.int
  | ["F", h] => (natOfHex h).map Data.float
  | ["S", h] => (strOfHex h).map Data.string
  | ["B", b] => some (.bool (b = "1"))
  | ["D", h] => (natOfHex h).map Data.dateTime
  | ["DI", h] => (strOfHex h).map Data.dateTimeIso
  | ["DU", h] => (strOfHex h).map Data.durationIso
  | ["E", k] => k.toNat?.map Data.error
  | _ => none

def parseRange (w : String) : Option (Range.Rng Data) :=
  if w = "E" then some Range.empty else
  match w.splitOn "/" with
  | [hd, cs] =>
    (match (hd.splitOn ",").mapM String.toNat?, (cs.splitOn ",").mapM parseCell with
     | some [sr, sc, h, wd], some cells =>
       if h = 0 ∨ wd = 0 ∨ cells.length ≠ h * wd then none
       else some ⟨sr, sc, sr + h - 1, sc + wd - 1, cells⟩
     | _, _ => none)
  | _ => none

def parseCfgBase (w : String) : Option Headers :=
  if w = "N" then some .none else if w = "A" then some .all else
  match w.splitOn "/" with
  | "C" :: names => (names.mapM strOfHex).map Headers.custom
  | ["W-"] => some (withDeserializeHeaders none)
  | "W" :: names => (names.mapM strOfHex).map fun ns => withDeserializeHeaders (some ns)
  | _ => none

/-- `<constructor>+h1+h0…`: the constructor's configuration followed by `has_headers(true|false)` calls -/
def parseCfg (w : String) : Option Headers :=
  match w.splitOn "+" with
  | base :: calls =>
    (match parseCfgBase base, calls.mapM (fun c => if c = "h1" then some true else if c = "h0" then some false else none) with
     | some b, some cs => some (builderCalls b cs)
     | _, _ => none)
  | [] => none

def parseTarget (w : String) : Option Target :=
  match w with
  | "any" => some .any | "bool" => some .bool | "char" => some .char | "str" => some .str
  | "string" => some .string | "bytes" => some .bytes | "byte_buf" => some .byteBuf
  | "option" => some .option | "unit" => some .unit | "unit_struct" => some .unitStruct
  | "newtype_struct" => some .newtypeStruct | "seq" => some .seq | "tuple" => some .tuple
  | "tuple_struct" => some .tupleStruct | "map" => some .map | "struct" => some .struct
  | "enum" => some .enum | "identifier" => some .identifier | "ignored_any" => some .ignoredAny
  | "i8" => some (.num .i8) | "i16" => some (.num .i16) | "i32" => some (.num .i32) | "i64" => some (.num .i64)
  | "u8" => some (.num .u8) | "u16" => some (.num .u16) | "u32" => some (.num .u32) | "u64" => some (.num .u64)
  | "f32" => some (.num .f32) | "f64" => some (.num .f64)
  | _ => none

structure StdTab where
  fmt : List (Nat × Str) := []
  p64 : List (Str × Option Nat) := []
  p32 : List (Str × Option Nat) := []
  atoi : List (Str × Option Int) := []
  ff64 : List (Str × Option Nat) := []

def parseStd (w : String) : Option StdTab :=
  if w = "-" then some {} else
  (w.splitOn ";").foldl (fun acc ent =>
    match acc, ent.splitOn "=" with
    | some t, [k, v] =>
      let body := (k.drop 1).toString
      let optNat : Option (Option Nat) := if v = "x" then some none else (natOfHex v).map some
      if k.startsWith "f" then
        (match natOfHex body, strOfHex v with
         | some b, some s => some { t with fmt := (b, s) :: t.fmt }
         | _, _ => none)
      else if k.startsWith "p" then
        (match strOfHex body, optNat with
         | some s, some o => some { t with p64 := (s, o) :: t.p64 }
         | _, _ => none)
      else if k.startsWith "q" then
        (match strOfHex body, optNat with
         | some s, some o => some { t with p32 := (s, o) :: t.p32 }
         | _, _ => none)
      else if k.startsWith "g" then
        (match strOfHex body, optNat with
         | some s, some o => some { t with ff64 := (s, o) :: t.ff64 }
         | _, _ => none)
      else if k.startsWith "a" then
        (match strOfHex body, (if v = "x" then some none else v.toInt?.map some : Option (Option Int)) with
         | some s, some o => some { t with atoi := (s, o) :: t.atoi }
         | _, _ => none)
      else none
    | _, _ => none) (some {})

/-- the `Std` the harness measured on the real `std`; `"?"`/`none` for entries it did not send -/
def StdTab.toStd (t : StdTab) : Std where
  fmtF64 b := match t.fmt.lookup b with | some s => s | none => "?".toList
  parseF64 s := match t.p64.lookup s with | some o => o | none => none
  parseF32 s := match t.p32.lookup s with | some o => o | none => none

def numName : NumTy → String
  | .i8 => "i8" | .i16 => "i16" | .i32 => "i32" | .i64 => "i64"
  | .u8 => "u8" | .u16 => "u16" | .u32 => "u32" | .u64 => "u64" | .f32 => "f32" | .f64 => "f64"

def showVal : Val → String
  | .bool b => if b then "b:1" else "b:0"
  | .int t v => s!"{numName t}:{v}"
  | .f32 b => if b % 2 ^ 31 > 0x7F800000 then "f32:nan" else s!"f32:{hexN b 8}"
  | .f64 b => s!"f64:{hexN b 16}"
  | .str s => s!"s:{hexOfStr s}"
  | .bytes s => s!"y:{hexOfStr s}"
  | .char c => s!"c:{c.toNat}"
  | .unit => "unit"
  | .none => "none"
  | .some => "some"
  | .newtype => "nt"
  | .enum s => s!"en:{hexOfStr s}"

def showErr : DeErr → String
  | .cellError k p => s!"!CE:{k}:{p.1}:{p.2}"
  | .unexpectedEndOfRow p => s!"!EOR:{p.1}:{p.2}"
  | .headerNotFound n => s!"!HNF:{hexOfStr n}"
  | .custom _ => "!custom"

def showVals (vs : List Val) : String := "+".intercalate (vs.map showVal)

def showFail : Option (DRes Unit) → List String
  | some (.err e) => [showErr e]
  | some (.panic _) => ["panic"]
  | _ => []

def showItem (std : Std) (sched : List Target) : Option Item → String
  | none => "none"
  | some (.seq hint evs) =>
    let (vals, fail) := recordSeq std sched 0 evs
    s!"seq[{hint}]:" ++ ";".intercalate (vals.map showVals ++ showFail fail)
  | some (.map evs) =>
    let (vals, fail) := recordMap std sched 0 evs
    "map:" ++ ";".intercalate (vals.map (fun kv => s!"{hexOfStr kv.1}={showVals kv.2}") ++ showFail fail)

def showHint (st : DeState) : String :=
  match sizeHint st with
  | (lo, some hi) => s!"{lo},{hi}"
  | (lo, none) => s!"{lo},-"

/-- one consumption step of the iterator, as the harness performs it on `&mut it` -/
inductive Op where
  | next                      -- `it.next()`
  | nth (n : Nat)             -- `it.nth(n)`
  | skip (k : Nat)            -- `it.by_ref().skip(k).next()`           (std: `nth(k)`)
  | stepBy (k m : Nat)        -- `it.by_ref().step_by(k).take(m)`, all  (std: `nth(0)`, then `nth(k-1)` each)
  | take (m : Nat)            -- `it.by_ref().take(m)`, all
  | last                      -- `it.by_ref().last()`
  | count                     -- `it.by_ref().count()`
  | hint                      -- nothing (only `size_hint` again)

def parseOp (w : String) : Option Op :=
  if w = "x" then some .next else if w = "l" then some .last else if w = "c" then some .count
  else if w = "h" then some .hint
  else
    let body := (w.drop 1).toString
    if w.startsWith "n" then body.toNat?.map Op.nth
    else if w.startsWith "s" then body.toNat?.map Op.skip
    else if w.startsWith "k" then body.toNat?.map Op.take
    else if w.startsWith "t" then
      (match body.splitOn ":" with
       | [a, b] => (match a.toNat?, b.toNat? with
         | some k, some m => if k = 0 then none else some (Op.stepBy k m)
         | _, _ => none)
       | _ => none)
    else none

/-- `n` (a number) = `n` times `next`; else a comma-separated op list -/
def parseOps (w : String) : Option (List Op) :=
  match w.toNat? with
  | some n => some (List.replicate n .next)
  | none => (w.splitOn ",").mapM parseOp

/-- pull with `step` until `None` or `m` items -/
def pull (step : DeState → Option Item × DeState) : Nat → DeState → List Item → List Item × DeState
  | 0, st, acc => (acc.reverse, st)
  | m + 1, st, acc =>
    match step st with
    | (some it, st') => pull step m st' (it :: acc)
    | (none, st') => (acc.reverse, st')

def showItems (std : Std) (sched : List Target) (l : List Item) : String :=
  if l.isEmpty then "-" else " & ".intercalate (l.map fun it => showItem std sched (some it))

def runOp (std : Std) (sched : List Target) (sh : Shape) (st : DeState) : Op → String × DeState
  | .next => let (it, st') := next st sh; (showItem std sched it, st')
  -- `nth` past the end = `nth` to the end (an exhausted iterator stays exhausted): keeps huge `n` computable
  | .nth n => let (it, st') := nth st sh (min n st.rows.length); (showItem std sched it, st')
  | .skip k => let (it, st') := nth st sh (min k st.rows.length); (showItem std sched it, st')
  | .stepBy k m =>
    (match m with
     | 0 => ("-", st)
     | m + 1 =>
       match nth st sh 0 with
       | (none, st') => ("-", st')
       | (some it, st') =>
         let (l, st'') := pull (fun s => nth s sh (k - 1)) m st' []
         (showItems std sched (it :: l), st''))
  | .take m => let (l, st') := pull (fun s => next s sh) m st []; (showItems std sched l, st')
  | .last =>
    let (l, st') := pull (fun s => next s sh) (st.rows.length + 1) st []
    (showItem std sched l.getLast?, st')
  | .count =>
    let (l, st') := pull (fun s => next s sh) (st.rows.length + 1) st []
    (s!"count={l.length}", st')
  | .hint => ("h", st)

def runDe (std : Std) (r : Range.Rng Data) (cfg : Headers) (sh : Shape) (ops : List Op) (sched : List Target) : String :=
  match new std cfg r with
  | .err e => showErr e
  | .panic _ => "panic"
  | .ok st0 =>
    let rec go (ops : List Op) (st : DeState) (acc : List String) : List String :=
      match ops with
      | [] => acc.reverse
      | op :: rest =>
        let (res, st') := runOp std sched sh st op
        go rest st' (showHint st' :: res :: acc)
    " | ".intercalate ("ok" :: showHint st0 :: go ops st0 [])

/-- the `DataConv.Std` of a run: casts from the `De` model, `to_string` / `atoi_simd` / `fast_float2` as measured -/
def StdTab.toConvStd (t : StdTab) : DataConv.Std where
  floatToString b := match t.fmt.lookup b with | some s => s | none => "?".toList
  intToString := intToStr
  floatAsI64 := f64ToInt .i64
  intAsF64 := intToF64
  boolAsF64 b := if b then 0x3FF0000000000000 else 0
  atoiI64 s := match t.atoi.lookup s with | some o => o | none => none
  parseF64 s := match t.ff64.lookup s with | some o => o | none => none

def showCell : Data → String
  | .int v => s!"I:{v}"
  | .float b => s!"F:{hexN b 16}"
  | .string s => s!"S:{hexOfStr s}"
  | .bool b => if b then "B:1" else "B:0"
  | .dateTime b => s!"D:{hexN b 16}"
  | .dateTimeIso s => s!"DI:{hexOfStr s}"
  | .durationIso s => s!"DU:{hexOfStr s}"
  | .error k => s!"E:{k}"
  | .empty => "_"

def parseNumTy (w : String) : Option NumTy :=
  match w with
  | "i8" => some .i8 | "i16" => some .i16 | "i32" => some .i32 | "i64" => some .i64
  | "u8" => some .u8 | "u16" => some .u16 | "u32" => some .u32 | "u64" => some .u64
  | _ => none

def parseVal (w : String) : Option Val :=
  if w = "unit" then some .unit else if w = "none" then some .none else if w = "some" then some .some
  else if w = "nt" then some .newtype
  else match w.splitOn ":" with
    | ["b", v] => some (.bool (v = "1"))
    | ["f32", h] => (natOfHex h).map Val.f32
    | ["f64", h] => (natOfHex h).map Val.f64
    | ["s", h] => (strOfHex h).map Val.str
    | ["y", h] => (strOfHex h).map Val.bytes
    | ["en", h] => (strOfHex h).map Val.enum
    | ["c", n] => n.toNat?.map fun k => Val.char (Char.ofNat k)
    | [t, v] => (match parseNumTy t, v.toInt? with
      | some ty, some x => some (.int ty x)
      | _, _ => none)
    | _ => none

def showDRes {α : Type} (f : α → String) : DRes α → String
  | .ok a => f a
  | .err e => showErr e
  | .panic _ => "panic"

def showF64Bits (b : Nat) : String :=
  if b % 2 ^ 63 > 0x7FF0000000000000 then "nan" else hexN b 16

def handle (line : String) : String :=
  match (match Wire.words line with | "hist" :: rest => rest | ws => ws) with
  | ["de", rg, cfg, sh, n, sched, std] =>
    (match parseRange rg, parseCfg cfg, parseOps n, (sched.splitOn ",").mapM parseTarget, parseStd std with
     | some r, some c, some n, some sc, some t =>
       if sh = "seq" then runDe t.toStd r c .seq n sc
       else if sh = "map" then runDe t.toStd r c .map n sc
       else "bad-op"
     | _, _, _, _, _ => "bad-op")
  | ["convert", cell, tg, pos, std] =>
    (match parseCell cell, parseTarget tg, (pos.splitOn ",").mapM String.toNat?, parseStd std with
     | some d, some t, some [pr, pc], some tab =>
       (match visitCell tab.toStd d (pr, pc) t with
        | .ok vs => showVals vs
        | .err e => showErr e
        | .panic _ => "panic")
     | _, _, _, _ => "bad-op")
  | ["data", cell, pos] =>
    (match parseCell cell, (pos.splitOn ",").mapM String.toNat? with
     | some d, some [pr, pc] =>
       showDRes showCell (dataOfCell d (pr, pc)) ++ " " ++
         showDRes (fun o => match o with | some x => "some+" ++ showCell x | none => "none") (optDataOfCell d (pr, pc))
     | _, _ => "bad-op")
  | ["visit", v] =>
    (match parseVal v with
     | some x => (match dataVisitor x with
       | .data d => showCell d
       | .again => "again"
       | .invalidType => "invalid")
     | none => "bad-op")
  | ["helper", cell, pos, std] =>
    (match parseCell cell, (pos.splitOn ",").mapM String.toNat?, parseStd std with
     | some d, some [pr, pc], some tab =>
       let σ := tab.toConvStd
       let p := (pr, pc)
       let optI := fun (o : Option Int) => match o with | some v => s!"some:{v}" | none => "none"
       let optF := fun (o : Option Nat) => match o with | some v => s!"some:{showF64Bits v}" | none => "none"
       let exI := fun (o : Except Str Int) => match o with | .ok v => s!"ok:{v}" | .error t => s!"err:{hexOfStr t}"
       let exF := fun (o : Except Str Nat) => match o with | .ok v => s!"ok:{showF64Bits v}" | .error t => s!"err:{hexOfStr t}"
       " ".intercalate [showDRes optI (asI64OrNone σ d p), showDRes exI (asI64OrString σ d p),
         showDRes optF (asF64OrNone σ d p), showDRes exF (asF64OrString σ d p)]
     | _, _, _ => "bad-op")
  | _ => "bad-op"

def main : IO Unit := Wire.run handle
