import CalVerif.Prim.Wire
import CalVerif.Model.Dates
/-! Driver for C11 (serial → calendar).  The float step is done by the harness; requests carry
    its outcome: an integer (the saturated `ms.round() as i64`) or `nf` (non-finite product).

    `civil <ms|nf> …`            → `;`-joined `Y-M-D h:mi:s.ms` | `none`   (`asDatetimeOfMs`)
    `dur <ms|nf> …`              → `;`-joined `<ms>` | `none`               (`durationOfMs`)
    `edt <1900|1904>,<serial> …` → `;`-joined `<date-time>|<duration>`     (`edtAsDatetime`, `edtAsDuration`)
    `cell <cell>`                → `dt=… date=… time=… dur=…`               (trait level)
    `helper <cell>`              → the same four fields for `Cell.viaSerde`
       serial: `w:<n>` | `f:<day>:<r1900>:<r1904>:<rDur>` | `r:<m1900>:<m1904>:<mDur>` (m = integer | `nf`)
       cell  : `int <n>` | `float <serial>` | `dt <serial> <1900|1904> <dt|td>` | `other`
               | `iso <pdt> <pd> <pt>` | `isodur <pt>`   (parser outcomes: `none` | `Y/M/D/h/mi/s/ms` | `Y/M/D` | `h/mi/s/ms`)
    `day <1900|1904> <n>`        → canonical date-time of the whole-day serial `n`
    `sweep <1900|1904> <lo> <hi>` → FNV-64 (hex) over `day` of every serial in [lo,hi), each
                                    terminated by `;` -/

open Dates

def showDate (d : Date) : String := s!"{d.y}-{d.m}-{d.d}"
def showTime (t : Time) : String := s!"{t.h}:{t.mi}:{t.s}.{t.ms}"
def showDT (o : Option DateTime) : String :=
  match o with
  | none => "none"
  | some dt => showDate dt.date ++ " " ++ showTime dt.time

def showOpt {α : Type} (f : α → String) : Option α → String
  | none => "none"
  | some a => f a

def parseMs (s : String) : Option MsIn :=
  if s = "nf" then some .nonFinite else (s.toInt?).map .ms

def fnvStep (h : UInt64) (s : String) : UInt64 :=
  s.toUTF8.foldl (fun h b => (h ^^^ b.toUInt64) * 0x100000001b3) h

def sweep (is1904 : Bool) (lo hi : Nat) : UInt64 := Id.run do
  let mut h : UInt64 := 0xcbf29ce484222325
  for n in [lo:hi] do
    h := fnvStep h (showDT (datetimeOfSerial is1904 (n : Int)) ++ ";")
  return h

def hex64 (v : UInt64) : String :=
  String.ofList ((List.range 16).map fun i => Wire.hexDigit ((v.toNat >>> (4 * (15 - i))) % 16))

def system? (s : String) : Option Bool :=
  if s = "1900" then some false else if s = "1904" then some true else none

def serial? (w : String) : Option Serial :=
  match w.splitOn ":" with
  | ["w", n] => n.toInt?.map .whole
  | ["f", d, a, b, c] =>
    match d.toInt?, a.toNat?, b.toNat?, c.toNat? with
    | some d, some a, some b, some c => some (.frac d a b c)
    | _, _, _, _ => none
  | ["r", a, b, c] =>
    match parseMs a, parseMs b, parseMs c with
    | some a, some b, some c => some (.raw a b c)
    | _, _, _ => none
  | _ => none

def date? (l : List String) : Option Date :=
  match l with
  | [y, m, d] =>
    match y.toInt?, m.toNat?, d.toNat? with
    | some y, some m, some d => some { y := y, m := m, d := d }
    | _, _, _ => none
  | _ => none

def time? (l : List String) : Option Time :=
  match l.mapM String.toNat? with
  | some [h, mi, s, ms] => some { h := h, mi := mi, s := s, ms := ms }
  | _ => none

/-- `none` ↦ `some none`; malformed ↦ `none` -/
def optOf {α : Type} (f : List String → Option α) (w : String) : Option (Option α) :=
  if w = "none" then some none else (f (w.splitOn "/")).map some

def dateTime? (l : List String) : Option DateTime :=
  match date? (l.take 3), time? (l.drop 3) with
  | some d, some t => some { date := d, time := t }
  | _, _ => none

def cell? (ws : List String) : Option Cell :=
  match ws with
  | ["int", n] => n.toInt?.map .int
  | ["float", s] => (serial? s).map .float
  | ["dt", s, sys, k] =>
    match serial? s, system? sys with
    | some s, some b =>
      if k = "dt" then some (.dateTime s b .dateTime) else if k = "td" then some (.dateTime s b .timeDelta) else none
    | _, _ => none
  | ["iso", a, b, c] =>
    match optOf dateTime? a, optOf date? b, optOf time? c with
    | some a, some b, some c => some (.dateTimeIso a b c)
    | _, _, _ => none
  | ["isodur", c] => (optOf time? c).map .durationIso
  | ["other"] => some .other
  | _ => none

def showCell (c : Cell) : String :=
  s!"dt={showDT c.asDatetime} date={showOpt showDate c.asDate} time={showOpt showTime c.asTime} dur={showOpt toString c.asDuration}"

def edtOne (w : String) : String :=
  match w.splitOn "," with
  | [sys, s] =>
    match system? sys, serial? s with
    | some b, some s => showDT (edtAsDatetime s b) ++ "|" ++ showOpt toString (edtAsDuration s)
    | _, _ => "bad-arg"
  | _ => "bad-arg"

def handle (line : String) : String :=
  match Wire.words line with
  | "civil" :: args =>
    ";".intercalate (args.map fun a => match parseMs a with
      | some m => showDT (asDatetimeOfMs m)
      | none => "bad-arg")
  | "dur" :: args =>
    ";".intercalate (args.map fun a => match parseMs a with
      | some m => showOpt toString (durationOfMs m)
      | none => "bad-arg")
  | "edt" :: args => ";".intercalate (args.map edtOne)
  | "cell" :: ws => match cell? ws with
    | some c => showCell c
    | none => "bad-arg"
  | "helper" :: ws => match cell? ws with
    | some c => showCell c.viaSerde
    | none => "bad-arg"
  | ["day", sys, n] =>
    match system? sys, n.toInt? with
    | some b, some v => showDT (datetimeOfSerial b v)
    | _, _ => "bad-arg"
  | ["sweep", sys, lo, hi] =>
    match system? sys, lo.toNat?, hi.toNat? with
    | some b, some l, some h => hex64 (sweep b l h)
    | _, _, _ => "bad-arg"
  | _ => "bad-op"

def main : IO Unit := Wire.run handle
