import CalVerif.Prim.Wire
import CalVerif.Model.Dates
/-! Driver for C11 (serial → calendar).  The float step is done by the harness; requests carry
    its outcome: an integer (the saturated `ms.round() as i64`) or `nf` (non-finite product).

    `civil <ms|nf> …`            → `;`-joined `Y-M-D h:mi:s.ms` | `none`   (`asDatetimeOfMs`)
    `dur <ms|nf> …`              → `;`-joined `<ms>` | `none`               (`durationOfMs`)
    `cell <num|dt|other> <msDt> <msDur>` → `dt=… date=… time=… dur=…`       (trait level)
    `helper <num|dt|other> <msDt> <msDur> <ms1900>` → the same four fields for `Cell.viaSerde`
    `day <1900|1904> <n>`        → canonical date-time of the whole-day serial `n`
    `sweep <1900|1904> <lo> <hi>` → FNV-64 (hex) over `day` of every serial in [lo,hi), each
                                    terminated by `;` -/

open Dates

def showDate (d : Date) : String := s!"{d.y}-{d.m}-{d.d}"
def showTime (t : Time) : String := s!"{t.h}:{t.mi}:{t.s}.{t.ms}"
def showDT (o : Option DateTime) : String :=
  match o with
  | none => "none"
  | some dt => showDate dt.date ++ " " ++ showTime dt.time

def showOpt {α : Type} (f : α → String) : Option α → String
  | none => "none"
  | some a => f a

def parseMs (s : String) : Option MsIn :=
  if s = "nf" then some .nonFinite else (s.toInt?).map .ms

def fnvStep (h : UInt64) (s : String) : UInt64 :=
  s.toUTF8.foldl (fun h b => (h ^^^ b.toUInt64) * 0x100000001b3) h

def sweep (is1904 : Bool) (lo hi : Nat) : UInt64 := Id.run do
  let mut h : UInt64 := 0xcbf29ce484222325
  for n in [lo:hi] do
    h := fnvStep h (showDT (datetimeOfSerial is1904 (n : Int)) ++ ";")
  return h

def hex64 (v : UInt64) : String :=
  String.ofList ((List.range 16).map fun i => Wire.hexDigit ((v.toNat >>> (4 * (15 - i))) % 16))

def system? (s : String) : Option Bool :=
  if s = "1900" then some false else if s = "1904" then some true else none

def handle (line : String) : String :=
  match Wire.words line with
  | "civil" :: args =>
    ";".intercalate (args.map fun a => match parseMs a with
      | some m => showDT (asDatetimeOfMs m)
      | none => "bad-arg")
  | "dur" :: args =>
    ";".intercalate (args.map fun a => match parseMs a with
      | some m => showOpt toString (durationOfMs m)
      | none => "bad-arg")
  | ["cell", kind, a, b] =>
    match parseMs a, parseMs b with
    | some ma, some mb =>
      let c? : Option Cell :=
        if kind = "num" then some (.num ma) else if kind = "dt" then some (.dateTime ma mb)
        else if kind = "other" then some .other else none
      match c? with
      | some c => s!"dt={showDT c.asDatetime} date={showOpt showDate c.asDate} time={showOpt showTime c.asTime} dur={showOpt toString c.asDuration}"
      | none => "bad-kind"
    | _, _ => "bad-arg"
  | ["helper", kind, a, b, c] =>
    match parseMs a, parseMs b, parseMs c with
    | some ma, some mb, some mc =>
      let c? : Option Cell :=
        if kind = "num" then some (.num ma) else if kind = "dt" then some (.dateTime ma mb)
        else if kind = "other" then some .other else none
      match c? with
      | some c0 =>
        let c := c0.viaSerde mc
        s!"dt={showDT c.asDatetime} date={showOpt showDate c.asDate} time={showOpt showTime c.asTime} dur={showOpt toString c.asDuration}"
      | none => "bad-kind"
    | _, _, _ => "bad-arg"
  | ["day", sys, n] =>
    match system? sys, n.toInt? with
    | some b, some v => showDT (datetimeOfSerial b v)
    | _, _ => "bad-arg"
  | ["sweep", sys, lo, hi] =>
    match system? sys, lo.toNat?, hi.toNat? with
    | some b, some l, some h => hex64 (sweep b l h)
    | _, _, _ => "bad-arg"
  | _ => "bad-op"

def main : IO Unit := Wire.run handle
